"""C20 - Cargo version requirements and cfg() expressions mean what Cargo says.

Oracle = harness/refcargo.py (semver-crate matcher + the two deviations pinned by unittests/cargotests.py,
SemVer section 11 comparator, cfg tree evaluator working on the *generated* tree).  refcargo itself is
validated in selftest() against the pinned fixtures, the SemVer spec examples and real Cargo (offline).
"""
from __future__ import annotations

import itertools
import random
import typing as T

from harness.core import Ctx, Evidence, Failure, HarnessError, pmap, campaign, shard_seeds
from harness import refcargo as R

LEVEL = 'exploration'
RULE = ('(a) requirement x version grid: operators {bare,^,~,=,<,<=,>,>=} x partial versions M / M.m / M.m.p over {0..3} '
        '(+ pre-release tags -alpha,-alpha.1,-rc.2,-0 on full versions) + wildcards *, X.*, X.Y.*, each in up to 4 blank '
        'spellings, comma lists of 2 and 3 over a 100-comparator base (2 spellings each); versions = all M.m.p over {0..4}^3, the same with build '
        'metadata, and 5 pre-release spellings of each; thorough enumerates every cell, quick the cells with '
        '(i_req+i_ver+seed)%3==0. Release cells: cargo_parse(req)(v) == refcargo.matches(req,v); pre-release cells: only '
        '"False when no comparator names a pre-release". non-trivial cell = a version one step (+-1 in one component) away '
        'carries the opposite expected answer (boundary cell), or a pre-release whose release would be accepted; distinct by '
        '(canonical requirement, version). (b) all ordered pairs and all triples of an 88 version set (SemVer section 11 '
        'examples, numeric/alphanumeric/hyphen/upper-case identifiers, numeric first identifiers, digit-leading alphanumeric identifiers, longer lists, build metadata) + Hypothesis random '
        'versions: trichotomy, operator consistency, antisymmetry, transitivity, reference comparator; every pair/triple '
        'with two different versions is non-trivial. (c) every cfg tree of depth<=2 over atoms {a,b,unix,k="v",k="w"} with '
        'all/any arity 0-3 and not; depth 3 = not(t)/all|any(t)/all|any(t,u) over those (thorough: all, quick: every twelfth by index+seed) '
        '+ seeded arity-3 samples; each under all 40 assignments; space-only renderings demand the exact Boolean of the '
        'generated tree, tab/newline renderings and string values holding blanks/delimiters demand "MesonException or that '
        'Boolean"; non-trivial = >=2 operators, distinct by (tree, assignment). (c3) four realistic rustc cfg tables (linux, wasm32, windows-msvc, bare-metal arm): atoms cross every name with every value (a bare word that is only some key\'s value is absent), trees not/all/any over pairs. (d) malformed: every token string of '
        'length<=4 (thorough 5) over 13 tokens, single-token mutations of rendered trees, Hypothesis text; malformed per the '
        'Cargo grammar => MesonException required; any other exception type anywhere is a failure.')
ASSUMPTIONS = [
    'requirement strings are ones Cargo itself accepts and that the property lists (no x/X wildcard, no operator+wildcard, no `*` inside a list, no pre-release tag on a partial version, no !=)',
    'versions handed to the matcher are full SemVer 2.0.0 strings (they come from Cargo.lock); partial versions as *input* are pinned by cargotests.py but not claimed by the property',
    'for a pre-release version only the claimed direction is asserted (False when the requirement names no pre-release)',
    'cfgs is a str->str dict with one value per key ("" for name-only cfgs, as _split_cfg builds it); a bare name is only asked of keys that are absent or name-only, name="" is not generated',
    'identifier alphabet, string escapes, blanks other than U+0020, true/false literals, raw identifiers and trailing commas are outside the listed forms: only "no foreign exception" (and no wrong Boolean where a generated tree exists) is demanded there',
    'inputs to eval_cfg always have the form cfg(...); anything else is a target triple by design',
    'nesting depth of generated cfg text is <= 12 (RecursionError at ~1000 levels is outside the depth bound of the property)',
]

# ---------------------------------------------------------------------------
# pinned fixtures (transcribed from /repo/unittests/cargotests.py::test_cargo_parse); partial input versions are padded

PINNED: T.List[T.Tuple[str, T.List[str], T.List[str]]] = [
    ('>= 1', ['1', '1.0', '1.5', '2'], ['0.9']),
    ('> 1', ['1.0.1', '1.5', '2'], ['0.9', '1']),
    ('= 1', ['1', '1.0', '1.0.0'], ['0.9', '1.0.1', '2']),
    ('< 1', ['0.9'], ['1', '1.0', '2']),
    ('>= 1.0', ['1', '1.0', '1.0.0', '1.5'], ['0.9']),
    ('>= 1.0.0', ['1', '1.0', '1.0.0', '1.5'], ['0.9']),
    ('> 1.0', ['1.0.1', '1.5', '2'], ['0.9', '1', '1.0']),
    ('> 1.0.0', ['1.0.1', '1.5', '2'], ['0.9', '1', '1.0', '1.0.0']),
    ('<= 1', ['0.9', '1', '1.0', '1.5', '1.99'], ['2', '2.0']),
    ('<= 1.1', ['1.0', '1.1', '1.1.5'], ['1.2', '2']),
    ('<= 1.1.1', ['1.0', '1.1', '1.1.1'], ['1.1.2', '1.2']),
    ('~1', ['1', '1.5', '1.99'], ['0.9', '2']),
    ('~1.1', ['1.1', '1.1.5'], ['1.0', '1.2', '2']),
    ('~1.1.2', ['1.1.2', '1.1.5'], ['1.1.1', '1.2.0']),
    ('*', ['0.1', '1', '99.99'], []),
    ('1.*', ['1', '1.5'], ['0.9', '2']),
    ('2.3.*', ['2.3', '2.3.5'], ['2.2', '2.4']),
    ('2', ['2', '2.5'], ['1', '3']),
    ('2.4', ['2.4', '2.5'], ['2.3', '3']),
    ('2.4.5', ['2.4.5', '2.6'], ['2.4.4', '3']),
    ('0.0.0', ['0', '0.0.0', '0.0.5', '0.5'], ['1']),
    ('0.0', ['0', '0.5', '0.999'], ['1']),
    ('0', ['0', '0.5'], ['1']),
    ('0.0.5', ['0.0.5'], ['0.0.4', '0.0.6']),
    ('0.5.0', ['0.5.0', '0.5.5'], ['0.4.0', '0.6']),
    ('0.5', ['0.5', '0.5.5'], ['0.4', '0.6']),
    ('1.0.45', ['1.0.45', '1.5'], ['1.0.44', '2']),
    ('^2', ['2', '2.5'], ['1', '3']),
    ('^2.4', ['2.4', '2.5'], ['2.3', '3']),
    ('^2.4.5', ['2.4.5', '2.6'], ['2.4.4', '3']),
    ('^1.0', ['1', '1.0', '1.0.0', '1.5'], ['0.9', '2']),
    ('^1.0.0', ['1', '1.0', '1.0.0', '1.5'], ['0.9', '2']),
    ('^0.0.0', ['0', '0.0.5'], ['1']),
    ('^0.0', ['0', '0.5'], ['1']),
    ('^0', ['0', '0.5'], ['1']),
    ('^0.0.5', ['0.0.5'], ['0.0.4', '0.0.6']),
    ('^0.5.0', ['0.5.0', '0.5.5'], ['0.4.0', '0.6']),
    ('^0.5', ['0.5', '0.5.5'], ['0.4', '0.6']),
    ('>= 1.2.3, < 1.4.7', ['1.2.3', '1.3.0'], ['1.2.2', '1.4.7', '1.5']),
    ('>= 1.0', ['1.0', '1.5', '2'], ['2.0-pre1', '1.5-pre1']),
    ('^1', ['1', '1.5'], ['1.5.0-pre', '2.0-pre']),
    # ('>= 1.0.0-alpha', [... '1.0.0-alpha.1', '1.0.0-beta' ...]) only its release rows: pre-release acceptance is not claimed
    ('>= 1.0.0-alpha', ['1.0.0', '1.5'], ['0.9']),
    ('>= 1.0.0-alpha, < 1.0.0', [], ['1.0.0', '0.9']),
]

SEMVER_SPEC_CHAIN = ['1.0.0-alpha', '1.0.0-alpha.1', '1.0.0-alpha.beta', '1.0.0-beta', '1.0.0-beta.2', '1.0.0-beta.11',
                     '1.0.0-rc.1', '1.0.0', '2.0.0', '2.1.0', '2.1.1']       # semver.org section 11.2 + 11.4.4


def _pad(v: str) -> str:
    core, sep, rest = v.partition('-')
    while core.count('.') < 2:
        core += '.0'
    return core + sep + rest


# ---------------------------------------------------------------------------
# (a) domains

OPS8 = ['', '^', '~', '=', '<', '<=', '>', '>=']
REQ_TAGS = ['-alpha', '-alpha.1', '-rc.2', '-0']
VER_PRE_TAGS = ['-alpha', '-alpha.1', '-rc.2', '-0', '-beta+exp.sha']
BUILD_TAGS = ['+build.5', '+b-1.x', '+001']
ORDER_TAGS = ['-2', '-11', '-a.1b', '-1b', '-a.2']       # numeric-first / digit-leading alphanumeric identifiers (thorough Cargo cross-validation)


def partial_versions(hi: int = 4) -> T.List[str]:
    out = []
    for M in range(hi):
        out.append(f'{M}')
        for m in range(hi):
            out.append(f'{M}.{m}')
            for p in range(hi):
                out.append(f'{M}.{m}.{p}')
    return out


def single_requirements() -> T.List[T.List[T.Tuple[str, str]]]:
    """every requirement is a list of (operator, version-text) comparators; '*' is [('', '*')]"""
    parts = partial_versions()
    out: T.List[T.List[T.Tuple[str, str]]] = [[(o, p)] for o in OPS8 for p in parts]
    out.append([('', '*')])
    out += [[('', f'{M}.*')] for M in range(4)]
    out += [[('', f'{M}.{m}.*')] for M in range(4) for m in range(4)]
    for tag in REQ_TAGS:
        out += [[(o, p + tag)] for o in OPS8 for p in parts if p.count('.') == 2]
    out += [[(o, '1.2.3+build.7')] for o in OPS8] + [[(o, '1.2.3-alpha+b-1')] for o in OPS8]
    return out


LIST_BASE_VERS = ['0', '1', '2', '0.0', '0.3', '1.2', '2.0', '0.0.0', '0.0.3', '0.2.1', '1.2.3', '2.0.0', '1.2.3-alpha']


def list_base() -> T.List[T.Tuple[str, str]]:
    return [(o, v) for o in OPS8[1:] for v in LIST_BASE_VERS] + [('', '1.*'), ('', '1.2.*'), ('', '0.*'), ('', '2'), ('', '1.2'), ('', '0.0'),
                                                                  ('', '0.2.1'), ('', '1.2.3'), ('', '0.0.3')]


def render_req(comps: T.Sequence[T.Tuple[str, str]], variant: int) -> str:
    if variant == 0:
        return ', '.join(o + v for o, v in comps)
    if variant == 1:
        return ', '.join((o + ' ' + v) if o else v for o, v in comps)
    if variant == 2:
        return ','.join(' ' + o + v + ' ' for o, v in comps)
    return ' ,  '.join((o + '  ' + v) if o else v for o, v in comps)


def release_versions() -> T.List[str]:
    return [f'{a}.{b}.{c}' for a in range(5) for b in range(5) for c in range(5)]


# ---------------------------------------------------------------------------
# (a) checking

def req_sig(cargo_parse: T.Any, comps: T.Sequence[T.Tuple[str, str]], v: str, got: T.Any) -> str:
    """root-cause signature of a release-cell disagreement: the first comparator that disagrees on its own."""
    ver = R.parse_version(v)
    for o, t in comps:
        single = o + t
        try:
            want1 = R.match_comps(R.pinned_rewrite(R.parse_req(single)), ver)
            got1 = cargo_parse(single)(v)
        except Exception:
            continue
        if want1 != got1:
            cls = (o or 'bare') + ('.*' if t.endswith('*') else '') + ('+pre' if '-' in t.split('+')[0] else '') + \
                  ('' if t.count('.') >= 2 or t.endswith('*') else '/partial')
            return f'req/release:{cls}:{"accepts" if got1 else "rejects"}'
    return f'req/release:list:{"accepts" if got else "rejects"}'


def check_req_cell(cargo_parse: T.Any, comps: T.Sequence[T.Tuple[str, str]], variant: int, v: str) -> T.Tuple[T.Optional[Failure], str]:
    """-> (failure, class). Used by the probes, by replay and (inlined for speed) mirrored by the shard loop."""
    req = render_req(comps, variant)
    rc = R.parse_req(req)
    ver = R.parse_version(v)
    case = {'kind': 'req', 'comps': [list(c) for c in comps], 'variant': variant, 'req': req, 'version': v}
    try:
        got = cargo_parse(req)(v)
    except Exception as e:
        return Failure(f'req/raises:{type(e).__name__}', case, f'cargo_parse({req!r})({v!r}) raised {e!r}'), 'raise'
    if not isinstance(got, bool):
        return Failure('req/non-bool', case, f'cargo_parse({req!r})({v!r}) returned {got!r}'), 'nonbool'
    if ver.pre:
        if not R.names_prerelease(rc):
            if got:
                what = 'star' if not rc else (rc[0].op if rc[0].op != '*' else 'wildcard')
                return Failure(f'req/prerelease-accepted:{what}', case,
                               f'cargo_parse({req!r})({v!r}) = True, but {v} is a pre-release and no comparator of the requirement '
                               'names a pre-release (property: "a pre-release never satisfies a requirement that names no pre-release"; '
                               f'Cargo answers {R.match_comps(rc, ver)})'), 'pre_gate'
            return None, 'pre_gate'
        return None, 'pre_unclaimed'
    want = R.match_comps(R.pinned_rewrite(rc), ver)
    if got != want:
        sig = req_sig(cargo_parse, comps, v, got)
        if variant != 0:
            f0, _ = check_req_cell(cargo_parse, comps, 0, v)
            if f0 is None:
                sig = f'req/blank-spelling:{variant}'
        if '+' in v:       # prefer the same cell without build metadata when it fails the same way
            f1, _ = check_req_cell(cargo_parse, comps, variant, v.split('+')[0])
            if f1 is not None and f1.sig == sig:
                return f1, 'release'
        return Failure(sig, case, f'cargo_parse({req!r})({v!r}) = {got}; Cargo rule with the two pinned deviations says {want} '
                                  f'(plain Cargo: {R.match_comps(rc, ver)})'), 'release'
    return None, 'release'


def _variants_of(comps: T.Sequence[T.Tuple[str, str]]) -> T.List[int]:
    seen = {}
    for k in range(4):
        seen.setdefault(render_req(comps, k), k)
    return sorted(seen.values())


def _boundary_count(table: T.Dict[T.Tuple[int, int, int], bool], cells: T.Iterable[T.Tuple[int, int, int]]) -> int:
    n = 0
    for (a, b, c) in cells:
        w = table[(a, b, c)]
        for nb in ((a - 1, b, c), (a + 1, b, c), (a, b - 1, c), (a, b + 1, c), (a, b, c - 1), (a, b, c + 1)):
            x = table.get(nb)
            if x is not None and x != w:
                n += 1
                break
    return n


def _req_shard(shard: T.Tuple[T.List[T.List[T.Tuple[str, str]]], int, int, int, str], ev: Evidence, fails: T.List[Failure]) -> None:
    from mesonbuild.cargo.version import cargo_parse
    reqs, base_index, seed, stride, label = shard
    rel = release_versions()
    relv = [R.parse_version(v) for v in rel]
    rel_build = [v + BUILD_TAGS[i % 3] for i, v in enumerate(rel)]
    pre = [v + t for v in rel for t in VER_PRE_TAGS]
    prev = [R.parse_version(v) for v in pre]
    sigs: T.Set[str] = set()
    n_rel = n_pre = n_pre_unclaimed = nt = n_g1 = n_g2 = info_diff = 0
    sample_budget = 3

    def add(f: T.Optional[Failure]) -> None:
        if f is None:
            raise HarnessError('inline cell check and check_req_cell disagree')
        if f.sig not in sigs:
            sigs.add(f.sig)
            fails.append(f)

    for off, comps in enumerate(reqs):
        i = base_index + off
        canon = render_req(comps, 0)
        rc = R.parse_req(canon)
        try:
            rw = R.pinned_rewrite(rc)
        except R.RefError:
            ev.exclude('all-zero caret carrying a pre-release tag (scope of pinned deviation D2 undefined)', 1)
            continue
        names_pre = R.names_prerelease(rc)
        g1 = {(c.major, c.minor, c.patch) for c in rc if c.op == '<=' and c.pre}
        table = {v.release: R.match_comps(rw, v) for v in relv}
        variants = _variants_of(comps)
        if len(comps) > 1:          # lists: the canonical spelling and one rotating blank spelling
            variants = [k for k in variants if k in (0, 1 + i % 3)]
        evaluated: T.List[T.Tuple[int, int, int]] = []
        for k in variants:
            req = canon if k == 0 else render_req(comps, k)
            try:
                f = cargo_parse(req)
            except Exception as e:
                add(Failure(f'req/raises:{type(e).__name__}', {'kind': 'req', 'comps': [list(c) for c in comps], 'variant': k, 'req': req,
                                                               'version': '1.0.0'}, f'cargo_parse({req!r}) raised {e!r}'))
                continue
            for j, v in enumerate(rel):
                if stride > 1 and (i + j + seed + k) % stride:
                    continue
                key = relv[j].release
                if key in g1:
                    n_g1 += 1          # `<=X.Y.Z-pre` against the release X.Y.Z (class of the repaired defect 7dc1489): judged like any cell
                vs = v if (j + k) % 2 == 0 else rel_build[j]
                n_rel += 1
                if k == 0:
                    evaluated.append(key)
                try:
                    got = f(vs)
                except Exception:
                    got = None
                if got is not table[key]:
                    add(check_req_cell(cargo_parse, comps, k, vs)[0])
            # pre-release versions
            if names_pre:
                # nothing is claimed: sample a fifth, demand a Boolean, record how far the answers are from Cargo's full rule
                for j in range((i + k) % 5, len(pre), 5):
                    if stride > 1 and (i + j + seed) % stride:
                        continue
                    n_pre_unclaimed += 1
                    try:
                        got = f(pre[j])
                    except Exception:
                        got = None
                    if got is not True and got is not False:
                        add(check_req_cell(cargo_parse, comps, k, pre[j])[0])
                    elif got != R.match_comps(rc, prev[j]):
                        info_diff += 1
            else:
                for j, v in enumerate(pre):
                    if stride > 1 and (i + j + seed + k) % stride:
                        continue
                    n_pre += 1
                    if not rc:
                        n_g2 += 1      # `*` against a pre-release (class of the repaired defect 019bb67): the gate applies
                    if k == 0 and table[prev[j].release]:
                        nt += 1
                    try:
                        got = f(v)
                    except Exception:
                        got = None
                    if got is not False:
                        add(check_req_cell(cargo_parse, comps, k, v)[0])
        nt += _boundary_count(table, evaluated)
        if sample_budget and off % 97 == 5 and evaluated:
            sample_budget -= 1
            a, b, c = evaluated[len(evaluated) // 2]
            ev.case({'req': canon, 'version': f'{a}.{b}.{c}', 'expected': table[(a, b, c)]}, cls=label, n=0)
    ev.evaluations += n_rel + n_pre + n_pre_unclaimed
    ev.add_distinct(nt)
    ev.event(label + '/release_cells', n_rel)
    ev.event(label + '/prerelease_gate_cells', n_pre)
    ev.event(label + '/prerelease_cells_no_claim', n_pre_unclaimed)
    ev.event(label + '/release_cells_le_prerelease_bound_vs_its_release', n_g1)
    ev.event(label + '/prerelease_gate_cells_star', n_g2)
    ev.extra['info_prerelease_cells_where_answer_differs_from_full_cargo_rule_not_claimed'] = info_diff


# ---------------------------------------------------------------------------
# (b) SemVer order

SEMVER_SET = [
    '0.0.0', '0.0.1', '0.1.0', '0.9.9', '0.10.0', '0.10.1',
    '1.0.0-alpha', '1.0.0-alpha.1', '1.0.0-alpha.beta', '1.0.0-beta', '1.0.0-beta.2', '1.0.0-beta.11', '1.0.0-rc.1', '1.0.0',
    '1.0.0+build.5', '1.0.0-rc.1+exp.sha', '1.0.0+b-1.x', '1.0.0-alpha+001', '1.0.0+20130313144700', '1.0.0-beta+exp.sha.5114f85',
    '1.0.0-alpha.1.1', '1.0.0-alpha.0', '1.0.0-alpha.9', '1.0.0-alpha.10', '1.0.0-alpha.a', '1.0.0-alpha.A', '1.0.0-Alpha',
    '1.0.0-ALPHA', '1.0.0-alpha-1', '1.0.0-alpha-', '1.0.0-alpha1', '1.0.0-alpha.-', '1.0.0-alpha.-1', '1.0.0--', '1.0.0--1',
    '1.0.0-a', '1.0.0-a.b', '1.0.0-a.b.c', '1.0.0-b', '1.0.0-rc', '1.0.0-rc-1', '1.0.0-rc.x', '1.0.0-rc.1.x', '1.0.0-rc.x.1',
    '1.0.0-x.7.z.92', '1.0.0-x-y-z.--', '1.0.0-1a', '1.0.0-0a.1', '1.0.0-Z', '1.0.0-zeta', '1.0.0-a0', '1.0.0-a.99999999999999999999',
    '1.0.0-a.100000000000000000000', '1.0.1-alpha', '1.0.1', '1.0.10', '1.0.9', '1.1.0-alpha', '1.1.0', '1.2.3', '1.2.10', '1.9.0',
    '1.10.0', '2.0.0-alpha', '2.0.0-rc.2', '2.0.0-rc.10', '2.0.0-rc.2.0', '2.0.0-rc.2.a', '2.0.0', '2.0.0+z', '9.0.0', '10.0.0',
    '10.0.0-alpha', '99999999999999999999.0.0', '1.0.0-alpha.1+build', '1.0.0-alpha.1.0',
    # first identifier numeric (11.4.1 / 11.4.3), later identifier alphanumeric with a leading digit (11.4.2 / 11.4.3)
    '1.0.0-0', '1.0.0-2', '1.0.0-11', '1.0.0-2.a', '1.0.0-2.0', '1.0.0-1b', '1.0.0-a.2', '1.0.0-a.1b', '1.0.0-a.1b.2', '1.0.0-a.01b', '1.0.0-a.1-', '2.0.0-11+b',
]


def ident_shape_class(v: R.Ver) -> T.Optional[str]:
    """signature refinement only (the shapes of the two repaired tokenizer defects a1feef8); nothing is excluded"""
    if v.pre and R._is_num(v.pre[0]):
        return 'numeric-first-prerelease-ident'
    if any(p[0] in R.DIGITS and not R._is_num(p) for p in v.pre[1:]):
        return 'digit-leading-alnum-ident'
    return None


def pair_class(a: R.Ver, b: R.Ver) -> str:
    if a.release != b.release:
        return 'core'
    if bool(a.pre) != bool(b.pre):
        return 'prerelease-vs-release'
    if a.pre != b.pre:
        # the order is decided by the identifiers: name the identifier shape when it is one of the two delicate ones
        return ident_shape_class(a) or ident_shape_class(b) or 'prerelease-idents'
    return 'build-metadata' if a.build != b.build else 'identical'


def check_semver_pair(SemVer: T.Any, a: str, b: str) -> T.Optional[Failure]:
    case = {'kind': 'semver_pair', 'a': a, 'b': b}
    ra, rb = R.parse_version(a), R.parse_version(b)
    cls = pair_class(ra, rb)
    try:
        va, vb = SemVer(a), SemVer(b)
        lt, eq, gt = va < vb, va == vb, va > vb
        le, ge, ne = va <= vb, va >= vb, va != vb
        rlt, req_, rgt = vb > va, vb == va, vb < va
    except Exception as e:
        return Failure(f'semver/raises:{type(e).__name__}', case, f'comparing {a!r} with {b!r} raised {e!r}')
    c = R.cmp_version(ra, rb)
    got = -1 if lt else (0 if eq else 1)
    if got != c or (lt + eq + gt) != 1:
        if (lt + eq + gt) != 1 and cls in ('core', 'identical'):
            return Failure('semver/trichotomy', case, f'{a!r} vs {b!r}: < {lt} == {eq} > {gt} (exactly one must hold)')
        return Failure(f'semver/order:{cls}', case,
                       f'SemVer({a!r}) vs SemVer({b!r}): < {lt}, == {eq}, > {gt}; SemVer section 11 says '
                       f'{a} {"<" if c < 0 else ("==" if c == 0 else ">")} {b}')
    if le != (lt or eq) or ge != (gt or eq) or ne == eq:
        return Failure('semver/derived-ops', case, f'{a!r} vs {b!r}: <= {le} >= {ge} != {ne} inconsistent with < {lt} == {eq} > {gt}')
    if lt != rlt or gt != rgt or eq != req_:
        return Failure('semver/antisymmetry', case, f'{a!r} vs {b!r}: a<b={lt} but b>a={rlt}; a>b={gt}, b<a={rgt}; a==b={eq}, b==a={req_}')
    return None


def check_semver_triple(SemVer: T.Any, a: str, b: str, c: str) -> T.Optional[Failure]:
    x, y, z = SemVer(a), SemVer(b), SemVer(c)
    bad = None
    if x < y and y < z and not x < z:
        bad = '<'
    elif x == y and y == z and not x == z:
        bad = '=='
    elif x <= y and y <= z and not x <= z:
        bad = '<='
    elif x < y and y == z and not x < z:
        bad = '<,=='
    if bad:
        return Failure('semver/transitivity', {'kind': 'semver_triple', 'a': a, 'b': b, 'c': c}, f'transitivity of {bad} broken on {a!r}, {b!r}, {c!r}')
    return None


def _semver_shard(shard: T.Tuple[int, int], ev: Evidence, fails: T.List[Failure]) -> None:
    from mesonbuild.cargo.version import SemVer
    lo, hi = shard
    S = SEMVER_SET
    objs = [SemVer(s) for s in S]
    refs = [R.parse_version(s) for s in S]
    sigs: T.Set[str] = set()
    npairs = ntrip = nt = ntrip_nt = 0
    for i in range(lo, min(hi, len(S))):
        for j in range(len(S)):
            npairs += 1
            if refs[i] != refs[j]:
                nt += 1
            f = check_semver_pair(SemVer, S[i], S[j])
            if f is not None and f.sig not in sigs:
                sigs.add(f.sig)
                fails.append(f)
        x = objs[i]
        for j, y in enumerate(objs):
            if not x <= y:
                continue
            xy_lt = x < y
            xy_eq = x == y
            for k, z in enumerate(objs):
                ntrip += 1
                if not i == j == k:
                    ntrip_nt += 1
                if 'semver/transitivity' in sigs:
                    continue
                if (xy_lt and y < z and not x < z) or (xy_eq and y == z and not x == z) or (y <= z and not x <= z) or \
                        (xy_lt and y == z and not x < z):
                    f = check_semver_triple(SemVer, S[i], S[j], S[k])
                    if f is not None:
                        sigs.add(f.sig)
                        fails.append(f)
    ev.evaluations += npairs + ntrip
    ev.add_distinct(nt + ntrip_nt)
    ev.event('semver/pairs', npairs)
    ev.event('semver/triples', ntrip)
    if lo == 0:
        ev.case({'a': S[6], 'b': S[7], 'ref_cmp': R.cmp_version(refs[6], refs[7])}, cls='semver_pair', n=0)
        ev.case({'a': '1.0.0-alpha.A', 'b': '1.0.0-alpha.a', 'ref_cmp': -1}, cls='semver_pair', n=0)
        ev.case({'a': S[0], 'b': S[20], 'c': S[40]}, cls='semver_triple', n=0)


IDENT_POOL_NUM = ['0', '1', '2', '9', '10', '11', '99', '100', '18446744073709551616']
IDENT_POOL_ALNUM = ['alpha', 'beta', 'rc', 'a', 'b', 'A', 'Z', 'z', 'x-y', '-', '-1', 'a1', 'rc1', 'rc-1', '1a', '0a', 'alpha-', '1b', '01b', '2-', '11a']
IDENT_POOL_FIRST = IDENT_POOL_ALNUM + IDENT_POOL_NUM[:6]
IDENT_POOL_REST = IDENT_POOL_NUM + IDENT_POOL_ALNUM


def _semver_text_shard(shard: T.Tuple[int, int], ev: Evidence, fails: T.List[Failure]) -> None:
    from mesonbuild.cargo.version import SemVer
    from hypothesis import strategies as st
    seed, n = shard
    num = st.sampled_from([0, 1, 2, 9, 10, 11, 99, 100])
    pre = st.one_of(st.just(()), st.tuples(st.sampled_from(IDENT_POOL_FIRST)).flatmap(
        lambda t: st.lists(st.sampled_from(IDENT_POOL_REST), max_size=3).map(lambda r: t + tuple(r))), st.tuples(st.sampled_from(IDENT_POOL_FIRST)).flatmap(
        lambda t: st.lists(st.sampled_from(IDENT_POOL_REST), max_size=3).map(lambda r: t + tuple(r))))
    build = st.sampled_from(['', '', '+b', '+001', '+b-1.x', '+exp.sha.5114f85'])
    ver = st.tuples(num, num, num, pre, build).map(
        lambda t: f'{t[0]}.{t[1]}.{t[2]}' + ('-' + '.'.join(t[3]) if t[3] else '') + t[4])
    # two related versions: the second one is the first one with one part redrawn
    strat = st.one_of(st.tuples(ver, ver, st.sampled_from([0, 1, 2, 3, 3, 4])).map(lambda t: [t[0], _mix(t[0], t[1], t[2])]),
                      st.tuples(ver, ver).map(lambda t: [t[0], _same_core(t[0], t[1])]),
                      st.tuples(ver, ver).map(lambda t: [t[0], _same_core(t[0], t[1])]),
                      st.tuples(ver, ver).map(list))

    def check(case: T.List[str]) -> T.Optional[Failure]:
        a, b = case
        ra, rb = R.parse_version(a), R.parse_version(b)
        ev.case(case, nontrivial=ra != rb, cls='semver_random_pair/' + pair_class(ra, rb))
        return check_semver_pair(SemVer, a, b)

    campaign(strat, check, n, seed, fails)


def _same_core(a: str, b: str) -> str:
    """b's pre-release and build metadata on a's major.minor.patch"""
    core = a.split('+')[0].split('-')[0]
    rest = b[len(b.split('+')[0].split('-')[0]):]
    return core + rest


def _mix(a: str, b: str, k: int) -> str:
    va, vb = R.parse_version(a), R.parse_version(b)
    parts = [va.major, va.minor, va.patch, va.pre, va.build]
    other = [vb.major, vb.minor, vb.patch, vb.pre, vb.build]
    parts[k] = other[k]
    if k == 3 and va.pre and vb.pre and len(vb.pre) > 1:
        parts[3] = va.pre[:1] + vb.pre[1:]
    return f'{parts[0]}.{parts[1]}.{parts[2]}' + ('-' + '.'.join(parts[3]) if parts[3] else '') + ('+' + parts[4] if parts[4] else '')


# ---------------------------------------------------------------------------
# (c) cfg trees

ATOMS: T.List[T.Any] = [['name', 'a'], ['name', 'b'], ['name', 'unix'], ['eq', 'k', 'v'], ['eq', 'k', 'w']]
EXACT_STYLES = (0, 1, 2)      # U+0020 only
WEAK_STYLES = (3, 4, 5)       # tab / newline: accepted by the Rust grammar, refused by Cargo's tokenizer


def assignments() -> T.List[T.Dict[str, str]]:
    out = []
    for a, b, u in itertools.product((False, True), repeat=3):
        for k in (None, 'v', 'w', 'x', ''):
            d: T.Dict[str, str] = {}
            if a:
                d['a'] = ''
            if k is not None:
                d['k'] = k
            if b:
                d['b'] = ''
            if u:
                d['unix'] = ''
            out.append(d)
    return out


def level2() -> T.List[T.Any]:
    out = list(ATOMS)
    out += [['not', t] for t in ATOMS]
    for op in ('all', 'any'):
        for n in range(4):
            out += [[op, list(args)] for args in itertools.product(ATOMS, repeat=n)]
    return out


def mask_of(tree: T.Any, asg: T.List[T.Dict[str, str]]) -> int:
    m = 0
    for i, d in enumerate(asg):
        if R.cfg_eval(tree, d):
            m |= 1 << i
    return m


def level3_tree(n: int, L2: T.List[T.Any]) -> T.Any:
    """index -> tree:  [0, 2*N*N) op(t,u);  then 2*N op(t);  then N not(t)   (N = len(L2))"""
    N = len(L2)
    if n < 2 * N * N:
        op = 'all' if n < N * N else 'any'
        n %= N * N
        return [op, [L2[n // N], L2[n % N]]]
    n -= 2 * N * N
    if n < 2 * N:
        return ['all' if n < N else 'any', [L2[n % N]]]
    return ['not', L2[n - 2 * N]]


def tree_mask(tree: T.Any, m2: T.Dict[str, int], full: int, asg: T.List[T.Dict[str, str]]) -> int:
    """truth table of a tree whose leaves are level-2 trees: all = AND, any = OR, not = complement"""
    key = repr(tree)
    if key in m2:
        return m2[key]
    k = tree[0]
    if k == 'not':
        return full & ~tree_mask(tree[1], m2, full, asg)
    if k == 'all':
        m = full
        for t in tree[1]:
            m &= tree_mask(t, m2, full, asg)
        return m
    if k == 'any':
        m = 0
        for t in tree[1]:
            m |= tree_mask(t, m2, full, asg)
        return m
    return mask_of(tree, asg)


def shrink_tree(eval_cfg: T.Any, MesonException: T.Any, tree: T.Any, cfgs: T.Dict[str, str], style: int, sig0: str) -> T.Any:
    """greedy: replace the tree by a child / drop an argument while check_cfg_tree still fails with the same kind"""
    def kind(t: T.Any) -> T.Optional[str]:
        f = check_cfg_tree(eval_cfg, MesonException, t, cfgs, style, shrink=False)
        return f.sig.split(':')[0] if f else None
    want = sig0.split(':')[0]
    changed = True
    while changed:
        changed = False
        cands: T.List[T.Any] = []
        if tree[0] == 'not':
            cands.append(tree[1])
        elif tree[0] in ('all', 'any'):
            cands += list(tree[1])
            cands += [[tree[0], tree[1][:i] + tree[1][i + 1:]] for i in range(len(tree[1]))]
            cands += [[tree[0], tree[1][:i] + [c] + tree[1][i + 1:]] for i, t in enumerate(tree[1]) if t[0] in ('all', 'any', 'not')
                      for c in ([t[1]] if t[0] == 'not' else t[1])]
        for c in cands:
            if kind(c) == want:
                tree, changed = c, True
                break
    return tree


def _has_leading_blank_value(tree: T.Any) -> bool:
    if tree[0] == 'eq':
        return tree[2][:1].isspace()
    if tree[0] == 'not':
        return _has_leading_blank_value(tree[1])
    if tree[0] in ('all', 'any'):
        return any(_has_leading_blank_value(t) for t in tree[1])
    return False


def check_cfg_tree(eval_cfg: T.Any, MesonException: T.Any, tree: T.Any, cfgs: T.Dict[str, str], style: int,
                   shrink: bool = True, weak_value: bool = False) -> T.Optional[Failure]:
    text = R.cfg_render(tree, style)
    want = R.cfg_eval(tree, cfgs)
    exact = (style % len(R.STYLES)) in EXACT_STYLES and not weak_value
    f: T.Optional[Failure] = None
    root = tree[0] + ('/' + str(len(tree[1])) if tree[0] in ('all', 'any') else '')
    try:
        got = eval_cfg('cfg(' + text + ')', cfgs)
    except MesonException as e:
        if exact:
            f = Failure(f'cfg/rejected-valid:{root}', None, f'eval_cfg({"cfg(" + text + ")"!r}, {cfgs}) raised MesonException({e}); the expression is '
                                                            f'well formed and evaluates to {want}')
        got = None
    except Exception as e:
        f = Failure(f'cfg/raises:{type(e).__name__}', None, f'eval_cfg({"cfg(" + text + ")"!r}, {cfgs}) raised {e!r} (only MesonException is allowed)')
        got = None
    else:
        if got is not want:
            if exact:
                sig = f'cfg/eval:{root}'
            elif weak_value:
                sig = 'cfg/value-leading-blank-dropped' if _has_leading_blank_value(tree) else 'cfg/value-weak:mis-evaluated'
            else:
                sig = 'cfg/eval-blank:' + ('tab' if '\t' in text else 'newline')
            f = Failure(sig, None, f'eval_cfg({"cfg(" + text + ")"!r}, {cfgs}) = {got!r}; the generated tree {tree} evaluates to {want}')
    if f is None:
        return None
    if shrink and not weak_value:
        small = shrink_tree(eval_cfg, MesonException, tree, cfgs, style, f.sig)
        if small != tree:
            f2 = check_cfg_tree(eval_cfg, MesonException, small, cfgs, style, shrink=False)
            if f2 is not None:
                return f2
    f.case = {'kind': 'cfg_tree', 'tree': tree, 'style': style, 'cfgs': cfgs, 'text': 'cfg(' + text + ')', 'weak_value': weak_value}
    return f


def _cfg_shard(shard: T.Tuple[str, int, int, int, int], ev: Evidence, fails: T.List[Failure]) -> None:
    from mesonbuild.cargo.cfg import eval_cfg
    from mesonbuild.mesonlib import MesonException
    mode, lo, hi, seed, stride = shard
    asg = assignments()
    full = (1 << len(asg)) - 1
    L2 = level2()
    m2 = {repr(t): mask_of(t, asg) for t in L2}
    sigs: T.Set[str] = set()
    n_exact = n_weak = nt = n_weak_mesonexc = 0

    def run_tree(idx: int, tree: T.Any) -> None:
        nonlocal n_exact, n_weak, nt, n_weak_mesonexc
        want_mask = tree_mask(tree, m2, full, asg)
        ops = R.cfg_ops(tree)
        styles = [EXACT_STYLES[idx % 3]]
        if idx % 7 == 0:
            styles.append(WEAK_STYLES[(idx // 7) % 3])
        for st in styles:
            text = 'cfg(' + R.cfg_render(tree, st) + ')'
            exact = st in EXACT_STYLES
            for ai, d in enumerate(asg):
                want = bool(want_mask >> ai & 1)
                try:
                    got = eval_cfg(text, d)
                except MesonException:
                    got = None
                    if not exact:
                        n_weak_mesonexc += 1
                        continue
                except Exception:
                    got = None
                if got is not want:
                    f = check_cfg_tree(eval_cfg, MesonException, tree, d, st)
                    if f is None:
                        raise HarnessError(f'mask evaluation and tree evaluation disagree on {tree} under {d}')
                    if f.sig not in sigs:
                        sigs.add(f.sig)
                        fails.append(f)
            if exact:
                n_exact += len(asg)
                if ops >= 2:
                    nt += len(asg)
            else:
                n_weak += len(asg)

    if mode == 'l2':
        for idx in range(lo, min(hi, len(L2))):
            run_tree(idx, L2[idx])
            if idx in (7, 150, 300):
                ev.case({'tree': L2[idx], 'text': R.cfg_render(L2[idx], idx % 3), 'truth_table_over_40_assignments': bin(m2[repr(L2[idx])])},
                        cls='cfg_tree_depth<=2', n=0)
    elif mode == 'l3':
        for idx in range(lo, hi):
            if stride > 1 and (idx + seed) % stride:
                continue
            t3 = level3_tree(idx, L2)
            if all(c[0] in ('name', 'eq') for c in (t3[1] if t3[0] != 'not' else [t3[1]])):
                continue            # depth <= 2: already enumerated by the 'l2' shards
            run_tree(idx, t3)
        if lo == 0:
            t = level3_tree(12345, L2)
            ev.case({'tree': t, 'text': R.cfg_render(t, 0)}, cls='cfg_tree_depth3', n=0)
    else:   # seeded arity-3 / mixed-depth samples
        rnd = random.Random(seed * 7919 + lo)
        for idx in range(lo, hi):
            op = rnd.choice(('all', 'any'))
            args = [rnd.choice(L2) for _ in range(3)]
            tree: T.Any = [op, args]
            if rnd.random() < 0.3:
                tree = ['not', tree]
            run_tree(idx, tree)
        if lo == 0:
            ev.case({'tree': tree, 'text': R.cfg_render(tree, 2)}, cls='cfg_tree_arity3_sample', n=0)
    ev.evaluations += n_exact + n_weak
    ev.add_distinct(nt)
    ev.event('cfg/tree_evals_exact_oracle', n_exact)
    ev.event('cfg/tree_evals_tab_newline_weak_oracle', n_weak)
    ev.event('cfg/tab_newline_rejected_with_MesonException', n_weak_mesonexc)


# (c3) realistic configurations: the name/value tables `rustc --print cfg` prints for a few targets, as meson stores them
# (name -> value, '' for a name-only cfg).  Atoms cross names and values: a bare word that only occurs as the VALUE of another
# key is absent, a key compared with another key's value is false.  Left out (the API cannot tell them apart, both answers are
# defensible): a bare name that the table holds with a non-empty value, and name = "" at all.
REAL_CFGS: T.List[T.Dict[str, str]] = [
    {'debug_assertions': '', 'panic': 'unwind', 'target_arch': 'x86_64', 'target_endian': 'little', 'target_env': 'gnu',
     'target_family': 'unix', 'target_os': 'linux', 'target_pointer_width': '64', 'target_vendor': 'unknown', 'unix': ''},
    {'panic': 'abort', 'target_arch': 'wasm32', 'target_endian': 'little', 'target_family': 'wasm', 'target_os': 'unknown',
     'target_pointer_width': '32', 'target_vendor': 'unknown'},
    {'debug_assertions': '', 'panic': 'unwind', 'target_arch': 'x86_64', 'target_endian': 'little', 'target_env': 'msvc',
     'target_family': 'windows', 'target_os': 'windows', 'target_pointer_width': '64', 'target_vendor': 'pc', 'windows': ''},
    {'panic': 'abort', 'target_arch': 'arm', 'target_endian': 'little', 'target_os': 'none', 'target_pointer_width': '32',
     'target_vendor': 'unknown', 'target_abi': 'eabihf', 'feature': 'std', 'std': ''},
]


def real_atoms(d: T.Dict[str, str]) -> T.List[T.Any]:
    words = sorted(set(d) | set(v for v in d.values() if v) | {'unix', 'windows', 'wasm', 'test', 'proc_macro'})
    values = sorted(set(v for v in d.values() if v) | {'unix', 'linux'})
    out: T.List[T.Any] = [['name', w] for w in words if not d.get(w)]          # name-only or absent
    for k in sorted(set(d) | {'target_env', 'missing'}):
        for v in values:
            out.append(['eq', k, v])
    return out


def _cfg_real_shard(shard: int, ev: Evidence, fails: T.List[Failure]) -> None:
    from mesonbuild.cargo.cfg import eval_cfg
    from mesonbuild.mesonlib import MesonException
    sigs: T.Set[str] = set()
    n = nt = 0
    d = REAL_CFGS[shard]
    atoms = real_atoms(d)
    true_atoms = [a for a in atoms if R.cfg_eval(a, d)]
    trees: T.List[T.Any] = list(atoms) + [['not', a] for a in atoms]
    for i, a in enumerate(atoms):
        for b in (true_atoms + atoms[i + 1:i + 4]):
            trees.append(['all', [a, b]])
            trees.append(['any', [b, a]])
            trees.append(['not', ['any', [a, b]]])
    for idx, tree in enumerate(trees):
        n += 1
        if R.cfg_ops(tree) >= 1:
            nt += 1
        f = check_cfg_tree(eval_cfg, MesonException, tree, d, EXACT_STYLES[idx % 3])
        if f is not None and f.sig not in sigs:
            f.sig = f.sig.replace('cfg/eval:', 'cfg/eval-realistic:')
            sigs.add(f.sig)
            fails.append(f)
    if shard == 1:
        ev.case({'cfgs': d, 'tree': ['not', ['name', 'wasm']], 'text': 'cfg(not(wasm))', 'want': True}, cls='cfg_realistic_table', n=0)
    ev.evaluations += n
    ev.add_distinct(nt)
    ev.event('cfg/realistic_table_evals', n)


WEAK_VALUES = ['a b', 'v,w', '(v)', 'a=b', 'v ', 'a  b', ')', ',', '=', 'all x', 'v\tw', 'not(v)', 'v, w', 'x)',
               ' v', '  v', '\tv', ' ', ' v w']     # the last five: leading blank (class of the repaired defect G8 / ab0f403)


def _cfg_value_shard(shard: int, ev: Evidence, fails: T.List[Failure]) -> None:
    from mesonbuild.cargo.cfg import eval_cfg
    from mesonbuild.mesonlib import MesonException
    sigs: T.Set[str] = set()
    n = rejected = 0
    for val in WEAK_VALUES:
        eq = ['eq', 'k', val]
        for tree in (eq, ['not', eq], ['all', [['name', 'a'], eq]], ['any', [eq, ['name', 'a']]], ['all', [eq, ['eq', 'k', val]]],
                     ['any', [['not', eq], ['name', 'b']]]):
            for kv in (None, val, val.strip(), val.split()[0] if val.split() else '', 'v', 'b', 'w', ''):
                for a in (False, True):
                    d: T.Dict[str, str] = {}
                    if kv is not None:
                        d['k'] = kv
                    if a:
                        d['a'] = ''
                    for st in (0, 1):
                        n += 1
                        f = check_cfg_tree(eval_cfg, MesonException, tree, d, st, weak_value=True)
                        if f is None:
                            try:
                                eval_cfg('cfg(' + R.cfg_render(tree, st) + ')', d)
                            except MesonException:
                                rejected += 1
                        elif f.sig not in sigs:
                            sigs.add(f.sig)
                            fails.append(f)
    ev.case({'tree': ['eq', 'k', 'a b'], 'text': 'cfg(k = "a b")', 'oracle': 'MesonException or the tree value'}, cls='cfg_value_with_blank_or_delimiter', n=0)
    ev.evaluations += n
    ev.event('cfg/value_with_blank_or_delimiter', n)
    ev.event('cfg/value_with_blank_or_delimiter_rejected_with_MesonException', rejected)
    ev.event('cfg/value_with_leading_blank', sum(1 for v in WEAK_VALUES if v[:1].isspace()) * (n // len(WEAK_VALUES)))


# ---------------------------------------------------------------------------
# (d) malformed text

TOKS = ['all', 'any', 'not', '(', ')', ',', '=', '"', 'a', 'b', '"v"', ' ', 'k']
KEYWORDS = ('all', 'any', 'not')
WORDS = ('all', 'any', 'not', 'a', 'b', 'k')
PROBE_CFGS = {'a': '', 'k': 'v'}


def join_tokens(seq: T.Sequence[str]) -> str:
    text = ''
    for s in seq:
        if text and s and (text[-1].isalnum() or text[-1] == '_') and (s[0].isalnum() or s[0] == '_'):
            text += ' '
        text += s
    return text


def lexer_class(text: str) -> T.Optional[str]:
    """signature refinement only: the three lexer shapes of the repaired defects G5-G7 (ab0f403).  Nothing is excluded;
    whether a text must be rejected is decided by R.cfg_classify alone."""
    if text.count('"') % 2:
        return 'unterminated-quote'
    if '"' in text:
        segs = text.split('"')[1::2]
        if any((not s) or any(c.isspace() or c in '(),=' for c in s) for s in segs):
            return 'delimiter-inside-quotes'
    if text.strip() in KEYWORDS:
        return 'bare-keyword'
    return None


def check_cfg_text(eval_cfg: T.Any, MesonException: T.Any, text: str, cfgs: T.Dict[str, str]) -> T.Tuple[T.Optional[Failure], str]:
    cls = R.cfg_classify(text)
    case = {'kind': 'cfg_text', 'text': text, 'cfgs': cfgs}
    raw = 'cfg(' + text + ')'
    try:
        got = eval_cfg(raw, cfgs)
    except MesonException:
        return None, cls + '/rejected'
    except Exception as e:
        return Failure(f'cfg/raises:{type(e).__name__}', case, f'eval_cfg({raw!r}, {cfgs}) raised {e!r} (only MesonException is allowed)'), cls
    if cls == 'malformed':
        return Failure(f'cfg/malformed-accepted:{lexer_class(text) or "structure"}', case,
                       f'eval_cfg({raw!r}, {cfgs}) = {got!r}; the text is not a cfg expression (Cargo refuses it) and must be rejected with a '
                       'MesonException rather than evaluated'), cls
    if got is not True and got is not False:
        return Failure('cfg/non-bool', case, f'eval_cfg({raw!r}) returned {got!r}'), cls
    return None, cls + '/evaluated'


def shrink_text_failure(eval_cfg: T.Any, MesonException: T.Any, f: Failure) -> Failure:
    """character-level ddmin of a failing text, keeping the signature"""
    from harness.core import minimize_list
    best = [f]

    def still(chars: T.List[str]) -> bool:
        g, _ = check_cfg_text(eval_cfg, MesonException, ''.join(chars), f.case['cfgs'])
        if g is not None and g.sig == f.sig:
            best[0] = g
            return True
        return False

    minimize_list(list(f.case['text']), still, max_tests=600)
    return best[0]


def _malformed_enum_shard(shard: T.Tuple[T.Tuple[str, ...], int], ev: Evidence, fails: T.List[Failure]) -> None:
    from mesonbuild.cargo.cfg import eval_cfg
    from mesonbuild.mesonlib import MesonException
    prefix, maxlen = shard
    sigs: T.Set[str] = set()
    hist: T.Dict[str, int] = {}
    n = nmal = 0
    for L in range(0, maxlen - len(prefix) + 1):
        for rest in itertools.product(TOKS, repeat=L):
            seq = prefix + rest
            if any(x in WORDS and y in WORDS for x, y in zip(seq, seq[1:])):
                continue        # same text as the sequence with an explicit ' ' token: keeps text <-> sequence one-to-one
            text = ''.join(seq)
            f, cls = check_cfg_text(eval_cfg, MesonException, text, PROBE_CFGS)
            hist[cls] = hist.get(cls, 0) + 1
            lc = lexer_class(text)
            if lc:
                hist['lexer-shape:' + lc + ':' + cls] = hist.get('lexer-shape:' + lc + ':' + cls, 0) + 1
            n += 1
            if cls.startswith('malformed'):
                nmal += 1
            if f is not None and f.sig not in sigs:
                sigs.add(f.sig)
                fails.append(f)
    ev.evaluations += n
    ev.add_distinct(nmal)
    for k, v in hist.items():
        ev.event('cfg/token_string/' + k, v)
    if prefix == ('all',):
        ev.case({'text': 'cfg(all(a b))', 'class': R.cfg_classify('all(a b)')}, cls='cfg_malformed_token_string', n=0)
        ev.case({'text': 'cfg(not(a,b))', 'class': R.cfg_classify('not(a,b)')}, cls='cfg_malformed_token_string', n=0)


MUT_TOKENS = ['(', ')', ',', '=', '"', 'a', '"v"', 'all', 'not', 'k']


def tree_tokens(tree: T.Any) -> T.List[str]:
    k = tree[0]
    if k == 'name':
        return [tree[1]]
    if k == 'eq':
        return [tree[1], '=', '"' + tree[2] + '"']
    if k == 'not':
        return ['not', '('] + tree_tokens(tree[1]) + [')']
    out = [k, '(']
    for i, t in enumerate(tree[1]):
        if i:
            out.append(',')
        out += tree_tokens(t)
    return out + [')']


def _mutation_shard(shard: T.Tuple[int, int, int], ev: Evidence, fails: T.List[Failure]) -> None:
    from mesonbuild.cargo.cfg import eval_cfg
    from mesonbuild.mesonlib import MesonException
    seed, lo, hi = shard
    L2 = level2()
    rnd = random.Random(seed * 104729 + lo)
    sigs: T.Set[str] = set()
    hist: T.Dict[str, int] = {}
    seen: T.Set[str] = set()
    n = nmal = 0
    for idx in range(lo, hi):
        tree = level3_tree(rnd.randrange(2 * len(L2) ** 2 + 3 * len(L2)), L2) if idx % 2 else L2[rnd.randrange(len(L2))]
        toks = tree_tokens(tree)
        muts: T.List[T.List[str]] = []
        for i in range(len(toks)):
            muts.append(toks[:i] + toks[i + 1:])                       # drop
            muts.append(toks[:i] + [toks[i]] + toks[i:])               # duplicate
            if i + 1 < len(toks):
                muts.append(toks[:i] + [toks[i + 1], toks[i]] + toks[i + 2:])   # swap
            for t in MUT_TOKENS:
                muts.append(toks[:i] + [t] + toks[i:])                 # insert
                if t != toks[i]:
                    muts.append(toks[:i] + [t] + toks[i + 1:])         # replace
        for t in MUT_TOKENS:
            muts.append(toks + [t])
        for m in muts:
            text = join_tokens(m)
            if text in seen:
                continue
            seen.add(text)
            f, cls = check_cfg_text(eval_cfg, MesonException, text, PROBE_CFGS)
            hist[cls] = hist.get(cls, 0) + 1
            lc = lexer_class(text)
            if lc:
                hist['lexer-shape:' + lc + ':' + cls] = hist.get('lexer-shape:' + lc + ':' + cls, 0) + 1
            n += 1
            if cls.startswith('malformed'):
                nmal += 1
            if f is not None and f.sig not in sigs:
                sigs.add(f.sig)
                fails.append(shrink_text_failure(eval_cfg, MesonException, f))
    ev.evaluations += n          # not added to distinct_nontrivial: different shards may produce the same mutated text
    ev.event('cfg/mutated_tree_malformed', nmal)
    for k, v in hist.items():
        ev.event('cfg/mutated_tree/' + k, v)
    if lo == 0 and muts:
        ev.case({'base': join_tokens(toks), 'mutated': join_tokens(muts[0])}, cls='cfg_token_mutation', n=0)


FRAGMENTS = ['all', 'any', 'not', '(', ')', ',', '=', '"', ' ', 'a', 'b', 'unix', 'k', '"v"', '"w"', 'target_os', '"linux"', 'all(', 'not(', '))',
             ', ', ' = ', 'cfg(', 'feature', 'a_b', 'A1', '_x', 'true', 'r#a',
             '\t', '\n', '-', '.', '!', '&', '|', '\\', "'", '1', '0a', 'é', ' ', '　', '#', '[', ']', ';', ':', '==', '!=', '"a b"']


def _text_shard(shard: T.Tuple[int, int], ev: Evidence, fails: T.List[Failure]) -> None:
    from mesonbuild.cargo.cfg import eval_cfg
    from mesonbuild.mesonlib import MesonException
    from hypothesis import strategies as st
    seed, n = shard
    L2 = level2()
    frag = st.one_of(st.sampled_from(FRAGMENTS), st.sampled_from(FRAGMENTS[:16]), st.text(max_size=3))
    free = st.lists(frag, max_size=12).map(''.join)
    # a valid rendering with a random splice: keeps most of the structure intact
    spliced = st.tuples(st.integers(0, len(L2) - 1), st.integers(0, 5), st.integers(0, 60), st.integers(0, 3), frag).map(
        lambda t: _splice(R.cfg_render(L2[t[0]], t[1]), t[2], t[3], t[4]))
    strat = st.one_of(free, spliced)

    def check(text: str) -> T.Optional[Failure]:
        if text.count('(') > 12:
            ev.exclude('nesting deeper than 12')
            return None
        f, cls = check_cfg_text(eval_cfg, MesonException, text, PROBE_CFGS)
        lc = lexer_class(text)
        if lc:
            ev.event('cfg_text/lexer-shape:' + lc + ':' + cls)
        ev.case(text, nontrivial=cls.startswith('malformed') and len(text) > 1, cls='cfg_text/' + cls)
        return f

    campaign(strat, check, n, seed, fails)


def _splice(text: str, pos: int, cut: int, frag: str) -> str:
    pos = min(pos, len(text))
    return text[:pos] + frag + text[pos + cut:]


# ---------------------------------------------------------------------------
# regression probes: the minimal inputs of the eight defects G1..G8 that were found on the pinned tree and repaired by the
# `fix:` commits 7dc1489, 019bb67, a1feef8, ab0f403.  Their classes are no longer excluded anywhere: the campaigns enumerate /
# generate them and judge them with the ordinary oracle; these eight cases (and replays/regress/C20-*.json) stay as fixed points.

def known_defect_probes() -> T.List[T.Dict[str, T.Any]]:
    return [
        {'kind': 'req', 'comps': [['<=', '1.2.3-alpha']], 'variant': 0, 'version': '1.2.3'},           # G1
        {'kind': 'req', 'comps': [['', '*']], 'variant': 0, 'version': '1.0.0-alpha'},                    # G2
        {'kind': 'semver_pair', 'a': '1.0.0-2', 'b': '1.0.0-11'},                                          # G3
        {'kind': 'semver_pair', 'a': '1.0.0-a.2', 'b': '1.0.0-a.1b'},                                      # G4
        {'kind': 'cfg_text', 'text': 'unix"', 'cfgs': {'unix': ''}},                                        # G5
        {'kind': 'cfg_text', 'text': '"a="', 'cfgs': {'a': ''}},                                            # G6
        {'kind': 'cfg_text', 'text': 'all', 'cfgs': {'unix': ''}},                                          # G7
        {'kind': 'cfg_tree', 'tree': ['eq', 'k', ' v'], 'style': 0, 'cfgs': {'k': 'v'}, 'weak_value': True},  # G8
    ]


def run_case(case: T.Dict[str, T.Any]) -> T.Optional[Failure]:
    from mesonbuild.cargo.version import cargo_parse, SemVer
    from mesonbuild.cargo.cfg import eval_cfg
    from mesonbuild.mesonlib import MesonException
    kind = case.get('kind')
    if kind == 'req':
        comps = [tuple(c) for c in case['comps']]
        return check_req_cell(cargo_parse, comps, case.get('variant', 0), case['version'])[0]
    if kind == 'semver_pair':
        return check_semver_pair(SemVer, case['a'], case['b'])
    if kind == 'semver_triple':
        return check_semver_triple(SemVer, case['a'], case['b'], case['c'])
    if kind == 'cfg_tree':
        return check_cfg_tree(eval_cfg, MesonException, case['tree'], case['cfgs'], case.get('style', 0), shrink=False,
                              weak_value=case.get('weak_value', False))
    if kind == 'cfg_text':
        return check_cfg_text(eval_cfg, MesonException, case['text'], case['cfgs'])[0]
    raise HarnessError(f'unknown case kind {kind!r}')


def replay(ctx: Ctx, case: T.Any, doc: dict) -> T.Optional[Failure]:
    if isinstance(case, list):          # semver random pair / plain text cases written by campaign()
        case = {'kind': 'semver_pair', 'a': case[0], 'b': case[1]}
    elif isinstance(case, str):
        case = {'kind': 'cfg_text', 'text': case, 'cfgs': PROBE_CFGS}
    return run_case(case)


# ---------------------------------------------------------------------------
# self-test of the reference model

CARGO_REQ_CELLS: T.List[T.Tuple[str, str]] = [
    # caret / bare, partial versions, zero majors
    ('1.2.3', '1.2.3'), ('1.2.3', '1.2.2'), ('1.2.3', '1.9.0'), ('1.2.3', '2.0.0'), ('^1.2', '1.1.9'), ('^1.2', '1.2.0'), ('1', '1.0.0'), ('1', '0.9.9'),
    ('^0.2.3', '0.2.3'), ('^0.2.3', '0.3.0'), ('^0.2', '0.2.9'), ('^0.2', '0.3.0'), ('^0.0.3', '0.0.3'), ('^0.0.3', '0.0.4'), ('0', '0.9.9'), ('0', '1.0.0'),
    # D2 region: Cargo itself
    ('^0.0', '0.0.5'), ('^0.0', '0.1.0'), ('0.0', '0.1.0'), ('^0.0.0', '0.0.0'), ('^0.0.0', '0.0.5'), ('0.0.0', '0.0.1'),
    # tilde / wildcard
    ('~1', '1.9.9'), ('~1', '2.0.0'), ('~1.2', '1.2.9'), ('~1.2', '1.3.0'), ('~1.2.3', '1.2.2'), ('~1.2.3', '1.2.9'), ('~1.2.3', '1.3.0'), ('~0', '0.9.0'),
    ('~0.0', '0.0.9'), ('~0.0', '0.1.0'), ('1.*', '1.9.9'), ('1.*', '2.0.0'), ('1.2.*', '1.2.9'), ('1.2.*', '1.3.0'), ('*', '3.1.4'), ('0.*', '0.4.0'),
    # D1 region: Cargo itself
    ('=1', '1.0.0'), ('=1', '1.4.2'), ('=1', '2.0.0'), ('=1.2', '1.2.0'), ('=1.2', '1.2.7'), ('=1.2', '1.3.0'), ('=1.2.3', '1.2.3'), ('=1.2.3', '1.2.4'),
    ('>1', '1.0.1'), ('>1', '1.9.9'), ('>1', '2.0.0'), ('>1.2', '1.2.1'), ('>1.2', '1.3.0'), ('>1.2.3', '1.2.3'), ('>1.2.3', '1.2.4'), ('=0.0', '0.0.5'), ('>0.0', '0.0.5'),
    # remaining comparison operators on partial versions
    ('>=1', '0.9.9'), ('>=1', '1.0.0'), ('>=1.2', '1.1.9'), ('>=1.2', '1.2.0'), ('<1', '0.9.9'), ('<1', '1.0.0'), ('<1.2', '1.1.9'), ('<1.2', '1.2.0'),
    ('<=1', '1.9.9'), ('<=1', '2.0.0'), ('<=1.2', '1.2.9'), ('<=1.2', '1.3.0'), ('<=1.2.3', '1.2.3'), ('<=1.2.3', '1.2.4'), ('<=0.0', '0.0.5'), ('<=0', '0.9.0'),
    # lists, blanks, build metadata
    ('>=1.2.3, <1.4.7', '1.4.6'), ('>=1.2.3, <1.4.7', '1.4.7'), (' >= 1.2 , < 2 ', '1.5.0'), ('>=  1.2 ,  <  2', '2.0.0'), ('1.2.3+b', '1.2.3'), ('=1.2.3+b', '1.2.3+c'),
    ('~1.2, >1.2.4, <=1.2.6', '1.2.5'), ('~1.2, >1.2.4, <=1.2.6', '1.2.4'), ('1.2.3', '1.2.3+build.5'),
    # pre-release tags against releases, and Cargo's pre-release rule
    ('>=1.0.0-alpha', '1.0.0'), ('>=1.0.0-alpha', '0.9.9'), ('<1.0.0-alpha', '1.0.0'), ('<1.0.0-alpha', '0.9.9'), ('<=1.2.3-alpha', '1.2.3'), ('<=1.2.3-alpha', '1.2.2'),
    ('=1.2.3-alpha', '1.2.3'), ('>1.2.3-alpha', '1.2.3'), ('^1.2.3-alpha', '1.2.3'), ('^1.2.3-alpha', '2.0.0'), ('~1.2.3-rc.2', '1.2.9'), ('~1.2.3-rc.2', '1.3.0'),
    ('^0.0.3-alpha', '0.0.3'), ('^0.0.3-alpha', '0.0.4'), ('>=1.0.0-0', '1.0.0'), ('1.2.3-alpha.1', '1.2.3'),
    ('*', '1.0.0-alpha'), ('>=1.0.0', '2.0.0-alpha'), ('^1', '1.5.0-pre'), ('>=1.0.0-alpha', '1.0.0-beta'), ('>=1.0.0-alpha', '1.5.0-beta'), ('1.*', '1.2.3-alpha'),
    # section 11 order through the matcher (same M.m.p, both pre-releases)
    ('>1.0.0-alpha', '1.0.0-alpha.1'), ('>1.0.0-alpha.1', '1.0.0-alpha.beta'), ('>1.0.0-beta.2', '1.0.0-beta.11'), ('>1.0.0-beta.11', '1.0.0-beta.2'),
    ('>1.0.0-2', '1.0.0-11'), ('>1.0.0-11', '1.0.0-2'), ('>1.0.0-a.2', '1.0.0-a.1b'), ('>1.0.0-a.1b', '1.0.0-a.2'), ('>1.0.0-alpha.A', '1.0.0-alpha.a'),
    ('>1.0.0-alpha.a', '1.0.0-alpha.A'), ('>1.0.0-rc-1', '1.0.0-rc.x'), ('>1.0.0-rc.x', '1.0.0-rc-1'), ('>1.0.0--', '1.0.0-9'), ('>1.0.0-1a', '1.0.0-2'),
    # the classes that were excluded until the fixes 7dc1489 / 019bb67 / a1feef8 (G1-G4)
    ('<=1.2.3-rc.2', '1.2.3'), ('<=1.2.3-rc.2', '1.2.3-rc.2'), ('<=1.2.3-rc.2', '1.2.3-rc.10'), ('<=0.0.0-0', '0.0.0'), ('>=1.0.0, <=1.2.3-alpha', '1.2.3'),
    ('<= 1.2.3-alpha', '1.2.3+b'), ('*', '2.0.0-rc.1'), (' * ', '0.0.0-0'), ('>1.0.0-2', '1.0.0-1b'), ('>1.0.0-1b', '1.0.0-2'), ('>1.0.0-2.a', '1.0.0-2.0'),
    ('>1.0.0-2.0', '1.0.0-2.a'), ('>1.0.0-a.1b.2', '1.0.0-a.1b.10'), ('>1.0.0-a.01b', '1.0.0-a.1b'), ('>1.0.0-a.1b', '1.0.0-a.01b'), ('>1.0.0-0', '1.0.0-a'),
]
CARGO_INVALID_REQS = ['1.0-alpha', '1, *', '>=\t1', '1.2.3.4', '', '01.2.3', '1.2.3-01', '!=1.2.3']
CARGO_CFG_CELLS = ['a', 'k = "v"', 'k="v"', 'all()', 'any()', 'not(a)', 'all(a, b)', 'all (a)', ' a ', 'all( a , k = "v" )', 'any(all(a, not(b)), k = "w")',
                   'all(a,)', 'true', 'k = "a b"', 'k = " v"', 'k = ""', 'r#a',
                   '', 'all', 'not', 'all(a b)', 'not(a,b)', 'not()', 'not(a,)', 'all(,)', 'all(,a)', 'all(a,,b)', 'k = v', '= "v"', 'k = = "v"', 'k == "v"', 'a b',
                   'all(a))', 'all(a', 'unix"', 'k = "v', '"a="', '"unix"', 'k = "v" "w"', 'a=', 'all(a)b', '(a)', 'a,', 'a-b', 'a.b', '1a', 'a\tb', 'a\n', 'all(a,\tb)',
                   'k = "v\\"w"', 'not(all)', 'all(not)',
                   # lexer shapes that were excluded until the fix ab0f403 (G5-G8)
                   'all(a", b)', 'k = "v""', '"', '"a=b"', '""', 'a" "b', 'k = "(", a', 'all(k = ",", a)', 'any', ' not ', 'all(any)', 'k = "  v"', 'k = " "', 'all(k = " v w", a)']


def selftest(ctx: Ctx) -> None:
    # 1. SemVer comparator: spec chain, build metadata, numeric vs alphanumeric
    chain = [R.parse_version(s) for s in SEMVER_SPEC_CHAIN]
    for i, a in enumerate(chain):
        for j, b in enumerate(chain):
            if R.cmp_version(a, b) != (i > j) - (i < j):
                raise HarnessError(f'reference SemVer order wrong on {SEMVER_SPEC_CHAIN[i]} vs {SEMVER_SPEC_CHAIN[j]}')
    if R.cmp_version(R.parse_version('1.0.0+a'), R.parse_version('1.0.0+b')) != 0 or \
            R.cmp_version(R.parse_version('1.0.0-2'), R.parse_version('1.0.0-11')) >= 0 or \
            R.cmp_version(R.parse_version('1.0.0-a.2'), R.parse_version('1.0.0-a.1b')) >= 0:
        raise HarnessError('reference SemVer order wrong (build metadata / numeric identifiers)')
    shapes = {ident_shape_class(R.parse_version(s)) for s in SEMVER_SET}
    if not {'numeric-first-prerelease-ident', 'digit-leading-alnum-ident'} <= shapes or len(set(SEMVER_SET)) != len(SEMVER_SET):
        raise HarnessError(f'SEMVER_SET must hold numeric-first and digit-leading alphanumeric identifiers, without duplicates: {shapes}')
    # 2. matcher against the fixtures pinned in the repo (deviations included)
    for req, acc, rej in PINNED:
        for v, want in [(x, True) for x in acc] + [(x, False) for x in rej]:
            if R.matches(req, _pad(v)) != want:
                raise HarnessError(f'refcargo.matches({req!r}, {_pad(v)!r}) != {want} (pinned by unittests/cargotests.py)')
    # 3. pinned rule differs from plain Cargo exactly where D1 / D2 apply
    rel = [R.parse_version(v) for v in release_versions()]
    seen_dev: T.Set[str] = set()
    for comps in single_requirements():
        rc = R.parse_req(render_req(comps, 0))
        try:
            rw = R.pinned_rewrite(rc)
        except R.RefError:
            continue
        dev = [R.deviation_of(c) for c in rc]
        differs = any(R.match_comps(rc, v) != R.match_comps(rw, v) for v in rel)
        if differs and not any(dev):
            raise HarnessError(f'pinned rule differs from Cargo outside D1/D2 for {comps}')
        if any(dev) and not differs:
            raise HarnessError(f'{comps} is marked as deviation but never differs from Cargo')
        if differs:
            seen_dev.update(d for d in dev if d)
    if seen_dev != {'D1', 'D2'}:
        raise HarnessError(f'deviations exercised: {seen_dev}')
    # 4. cfg reference: pinned eval fixtures (test_eval_ir) on hand-built trees, truth-table composition
    d = {'target_os': 'unix', 'unix': ''}
    fx = [(['eq', 'target_os', 'windows'], False), (['eq', 'target_os', 'unix'], True), (['eq', 'doesnotexist', 'unix'], False),
          (['not', ['eq', 'target_os', 'windows']], True), (['any', [['eq', 'target_os', 'windows'], ['eq', 'target_arch', 'x86_64']]], False),
          (['any', [['eq', 'target_os', 'windows'], ['eq', 'target_os', 'unix']]], True), (['all', [['eq', 'target_os', 'windows'], ['eq', 'target_os', 'unix']]], False),
          (['all', [['not', ['eq', 'target_os', 'windows']], ['eq', 'target_os', 'unix']]], True), (['any', [['name', 'unix'], ['name', 'windows']]], True),
          (['all', []], True), (['any', []], False), (['name', 'unix'], True), (['name', 'windows'], False)]
    for tree, want in fx:
        if R.cfg_eval(tree, d) != want:
            raise HarnessError(f'cfg reference evaluator wrong on {tree}')
    asg = assignments()
    full = (1 << len(asg)) - 1
    L2 = level2()
    m2 = {repr(t): mask_of(t, asg) for t in L2}
    N = len(L2)
    for n in list(range(0, 2 * N * N + 3 * N, 9973)) + [2 * N * N + 3 * N - 1]:
        t = level3_tree(n, L2)
        if tree_mask(t, m2, full, asg) != mask_of(t, asg):
            raise HarnessError(f'truth-table composition differs from recursive evaluation on {t}')
    for s in range(6):
        txt = R.cfg_render(L2[200], s)
        want = 'listed' if s in EXACT_STYLES else 'alphabet'
        if R.cfg_classify(txt) != want:
            raise HarnessError(f'recogniser: rendering style {s} of a valid tree classified {R.cfg_classify(txt)}: {txt!r}')
    for t in ('all(a b)', 'not(a,b)', 'k = v', '', 'all(a', 'a b', 'unix"', 'all'):
        if R.cfg_classify(t) != 'malformed':
            raise HarnessError(f'recogniser accepts {t!r}')
    # 5. real Cargo
    probe = R.CargoProbe(ctx.scratch)
    if not probe.available():
        ctx.note(f'cargo not available ({probe.why}): refcargo validated against pinned fixtures and spec examples only')
        return
    ctx.note(f'refcargo cross-checked against {probe.why}')
    validate_against_cargo(ctx, probe, CARGO_REQ_CELLS, CARGO_INVALID_REQS, CARGO_CFG_CELLS)


def validate_against_cargo(ctx: Ctx, probe: R.CargoProbe, cells: T.Sequence[T.Tuple[str, str]], invalid: T.Sequence[str],
                           cfg_cells: T.Sequence[str]) -> None:
    got = probe.req_cells(list(cells) + [(r, '1.0.0') for r in invalid])
    nd = 0
    for (req, v), g in zip(cells, got[:len(cells)]):
        if g is None:
            raise HarnessError(f'Cargo refuses requirement {req!r} / version {v!r} that the generator considers valid')
        want = R.cargo_matches(req, v)
        if g != want:
            raise HarnessError(f'refcargo.cargo_matches({req!r}, {v!r}) = {want} but real Cargo says {g}')
        # the rule stated by the property may differ from Cargo only through D1/D2 (release versions; nothing is
        # claimed about the value for pre-release versions beyond the gate, which Cargo shares)
        if R.parse_version(v).pre:
            if g and not R.names_prerelease(R.parse_req(req)):
                raise HarnessError(f'Cargo accepts pre-release {v!r} for {req!r} which names no pre-release')
            continue
        try:
            pinned = R.matches(req, v)
        except R.RefError:
            continue
        if pinned != g:
            nd += 1
            if not any(R.deviation_of(c) for c in R.parse_req(req)):
                raise HarnessError(f'pinned rule and Cargo differ outside D1/D2 on {req!r} / {v!r}')
    for req, g in zip(invalid, got[len(cells):]):
        if g is not None:
            # informational: the generator never emits these; if Cargo starts accepting one the exclusion list is stale
            ctx.note(f'Cargo accepts {req!r}, which the generator treats as invalid/unlisted')
        else:
            try:
                R.parse_req(req)
            except R.RefError:
                continue
            if req != '':
                raise HarnessError(f'refcargo.parse_req accepts {req!r} but Cargo refuses it')
    ok = probe.cfg_cells(cfg_cells)
    for text, g in zip(cfg_cells, ok):
        cls = R.cfg_classify(text)
        if cls == 'malformed' and g:
            raise HarnessError(f'recogniser calls cfg({text}) malformed but Cargo parses it')
        if cls in ('listed', 'extended') and not g:
            raise HarnessError(f'recogniser calls cfg({text}) {cls} but Cargo refuses it')
    ctx.ev.extra['cargo_cross_check'] = {'requirement_cells': len(cells), 'cells_where_pinned_rule_differs_from_cargo_(D1/D2)': nd,
                                         'invalid_requirement_strings': len(invalid), 'cfg_strings': len(cfg_cells)}


def thorough_cargo_validation(ctx: Ctx) -> None:
    probe = R.CargoProbe(ctx.scratch)
    if not probe.available():
        ctx.note('cargo not available: large cross-validation skipped')
        return
    rnd = random.Random(ctx.seed * 65537 + 11)
    singles = single_requirements()
    base = list_base()
    rel = release_versions()
    cells: T.List[T.Tuple[str, str]] = []
    for _ in range(ctx.n(0, 2600)):
        comps = rnd.choice(singles) if rnd.random() < 0.7 else [rnd.choice(base) for _ in range(rnd.choice((2, 2, 3)))]
        req = render_req(comps, rnd.randrange(4))
        # aim at the boundary: versions near the requirement's own numbers
        c0 = R.parse_req(req)[0] if R.parse_req(req) else None
        if c0 is not None and rnd.random() < 0.8:
            v = [c0.major, c0.minor or 0, c0.patch or 0]
            v[rnd.randrange(3)] += rnd.choice((-1, 0, 0, 1))
            ver = '.'.join(str(max(0, x)) for x in v)
        else:
            ver = rnd.choice(rel)
        r = rnd.random()
        if r < 0.25:
            ver += rnd.choice(VER_PRE_TAGS + ORDER_TAGS)
        elif r < 0.35:
            ver += rnd.choice(BUILD_TAGS)
        cells.append((req, ver))
    cells = sorted(set(cells))
    # recogniser: every token string of length <= 3 and a sample of length 4/5
    texts: T.List[str] = []
    for L in range(0, 4):
        texts += [join_tokens(s) for s in itertools.product(TOKS, repeat=L)]
    texts += [join_tokens([rnd.choice(TOKS) for _ in range(rnd.choice((4, 5, 6)))]) for _ in range(ctx.n(0, 800))]
    texts = sorted(set(texts))
    validate_against_cargo(ctx, probe, cells, [], texts)
    ctx.ev.event('cargo_cross_validation/requirement_cells', len(cells))
    ctx.ev.event('cargo_cross_validation/cfg_strings', len(texts))


# ---------------------------------------------------------------------------

def _ranges(n: int, k: int) -> T.List[T.Tuple[int, int]]:
    step = max(1, (n + k - 1) // k)
    return [(lo, min(lo + step, n)) for lo in range(0, n, step)]


def run(ctx: Ctx) -> None:
    # regression probes first: one deterministic case per repaired defect
    for case in known_defect_probes():
        ctx.fail(run_case(case))
        ctx.ev.event('known_defect_probes')
    stride = 3 if ctx.quick else 1
    # (a) single comparators
    singles = single_requirements()
    pmap(ctx, _req_shard, [(singles[lo:hi], lo, ctx.seed, stride, 'req_single') for lo, hi in _ranges(len(singles), 64)])
    # (a) comma lists
    base = list_base()
    rnd = random.Random(ctx.seed * 9176 + 3)
    pairs = [[x, y] for x in base for y in base]
    if ctx.quick:
        pairs = [p for i, p in enumerate(pairs) if (i + ctx.seed) % 3 == 0]
    triples = [[rnd.choice(base) for _ in range(3)] for _ in range(ctx.n(1500, 12000))]
    lists = pairs + triples
    pmap(ctx, _req_shard, [(lists[lo:hi], lo, ctx.seed, stride, 'req_list') for lo, hi in _ranges(len(lists), 64)])
    # (b) SemVer order
    pmap(ctx, _semver_shard, _ranges(len(SEMVER_SET), 32))
    pmap(ctx, _semver_text_shard, [(s, ctx.n(150, 3000)) for s in shard_seeds(ctx, 16)])
    # (c) cfg trees
    N = len(level2())
    pmap(ctx, _cfg_shard, [('l2', lo, hi, ctx.seed, 1) for lo, hi in _ranges(N, 16)])
    total3 = 2 * N * N + 3 * N
    pmap(ctx, _cfg_shard, [('l3', lo, hi, ctx.seed, 12 if ctx.quick else 1) for lo, hi in _ranges(total3, 64)])
    pmap(ctx, _cfg_shard, [('sample', lo, hi, ctx.seed, 1) for lo, hi in _ranges(ctx.n(4000, 60000), 32)])
    pmap(ctx, _cfg_value_shard, [0])
    pmap(ctx, _cfg_real_shard, list(range(len(REAL_CFGS))))
    # (d) malformed
    maxlen = 4 if ctx.quick else 5
    pmap(ctx, _malformed_enum_shard, [((), 1)] + [((a, b), maxlen) for a in TOKS for b in TOKS])
    pmap(ctx, _mutation_shard, [(ctx.seed, lo, hi) for lo, hi in _ranges(ctx.n(320, 3200), 32)])
    pmap(ctx, _text_shard, [(s, ctx.n(400, 6000)) for s in shard_seeds(ctx, 16)])
    if not ctx.quick:
        thorough_cargo_validation(ctx)
    for k in [k for k, v in ctx.ev.hist.items() if v == 0]:     # classes that only carry samples
        del ctx.ev.hist[k]
    ctx.exhaustive = not ctx.quick
    ctx.ev.extra['requirement_singles'] = len(singles)
    ctx.ev.extra['requirement_lists'] = len(lists)
    ctx.ev.extra['versions_per_requirement'] = {'release': 125, 'release_with_build_metadata': 125, 'prerelease': 125 * len(VER_PRE_TAGS)}
    ctx.ev.extra['cfg_trees'] = {'depth<=2': N, 'depth3_index_space': total3, 'assignments': len(assignments())}
    ctx.ev.extra['exhaustive_scope'] = (
        'thorough: every (single requirement, blank spelling) x every release version and every pre-release spelling where a claim exists; '
        'every ordered pair of the list base; all pairs/triples of the SemVer set; every cfg tree of depth<=2 and every depth-3 tree of arity<=2 '
        'x 40 assignments; every token string of length<=5. quick: a third of the requirement cells and a twelfth of the depth-3 trees (selected by index+seed), token strings <=4. '
        'comma lists of 3, arity-3 trees at depth 3, mutations and free text are sampled in both tiers.')
