"""C17 - Rewriter edits are local and keep everything else meaning the same.

Inputs : generated source trees (project() with version/license/default_options, literal variables, 1-6 build targets
         in the root file and in sub-directories whose sources come as inline strings, lists, nested lists, variables,
         `+`/`+=` chains, files(), get_variable(), shared between targets; extra_files; dependency() calls) whose
         target / dependency calls carry closed, deterministic core-language expressions in their OTHER arguments
         (typed generator harness/refmesongen.Gen over earlier literal variables), plus 1-3 rewriter commands.
Oracle : independent reading of the tree before and after the command by harness/refmeson (own lexer, parser,
         evaluator), extended here by the handful of build functions the trees use:
           touched files parse; the addressed target / keyword has exactly the requested value and `info` reports it;
           every statement outside the data flow of the addressed value is byte-identical, untouched files are
           byte-identical; every other argument of every call evaluates to the value it had before, in the same
           order with the same keywords; inverse laws; the command ends with exit 0 or a clean MesonException that
           leaves every file byte-identical.
The rewriter is driven in-process (mesonbuild.rewriter.run with the parser of `meson rewrite`); every disagreement
is re-run through `/venv/bin/python /repo/meson.py rewrite ...` in a scratch copy of the tree before it is reported.
"""
from __future__ import annotations

import argparse
import collections
import contextlib
import copy
import hashlib
import io
import json
import os
import re
import shutil
import typing as T

from harness.core import Ctx, Evidence, Failure, HarnessError, campaign, pmap, shard_seeds, make_scratch, fp
from harness import refmeson as R

LEVEL = 'exploration'
RULE = ('Hypothesis composite: project(name, version/license/default_options/meson_version as literals or closed '
        'expressions) + literal variables + 1-6 targets (executable/static_library/shared_library/library/'
        'both_libraries/shared_module) in the root and in sub-directories; sources as inline strings / lists / nested '
        'lists / variables / + and += chains / files() / get_variable() / sources: keyword / shared between targets / '
        'defined in another directory / string-valued expression elements; extra_files; dependency() calls; the other '
        'arguments of target and dependency calls are typed closed expressions from harness/refmesongen.Gen '
        '(parenthesised and/or/not, arithmetic associativity traps, method calls and indexing on parenthesised '
        'expressions, ternaries as operands, in / not in, strings with quote, backslash, escapes, unicode, triple-quoted '
        'and f-strings, dicts with expression keys) accepted by the reference evaluator, plus (45 % of the non-literal keyword values) one of 31 '
        'templates built around an operand position that is only right with parentheses (a - (b - c), a / (b * c), -(a + b), not (a and b), '
        '(a or b) and c, (i in l) == b, (c ? x : y) as operand / condition / indexed object, (s + t).to_upper(), (-(a + b)).to_string() ...) over '
        'literals, literal variables and strings with escaped quote / backslash / CR / LF / tab; commands prefer (60 %) targets whose call '
        'carries such an argument; legal layout variation '
        '(comments, line breaks, continuations, form feeds and unicode line separators in comments) from refmeson.Printer; '
        '1-3 commands: target src_add/src_rm/extra_files_add/extra_files_rm/target_add/target_rm/info, kwargs '
        'set/delete/add/remove/remove_regex/info on target/project/dependency, default_options set/delete, through JSON '
        'script mode (batched or one invocation per command) or the CLI sub-commands, including add-then-rm and '
        'rm-then-add of the same file.  non-trivial = a statement that had to be re-printed carries >= 1 untouched '
        'argument whose expression contains a sub-expression that needs parentheses, a unary operator over a binary '
        'one, or a string with quote / backslash; distinct by sha1(files, steps).')
ASSUMPTIONS = [
    'source paths in commands are relative to the source root and name files that do not exist on disk (pinned by unittests/rewritetests.py test_target_subdir: "third.c" added to a target of sub2 whose list lives in sub1 is reported as "third.c"); strings in a source list are relative to the directory of the target call, files() objects to the directory of the files() call (docs/yaml/functions/files.yaml)',
    'the order of sources inside a target is not part of the property ("all source files will be sorted alphabetically", Rewriter.md Limitations; rewritetests compares ignoring order): source lists are compared as sorted lists',
    'indentation and comments INSIDE a re-printed call / list may change (Rewriter.md Limitations); everything outside the extent of the re-printed node must be byte-identical',
    'a command may refuse (exit 0 with a warning, or MesonException) and leave every file byte-identical when the addressed value is not a literal the rewriter can edit (shared between targets, built by an expression, dict-form default_options); refusal is only a failure for shapes the documentation shows working (value given by literal lists / variables / inline strings that feed one target only; kwargs set/delete)',
    'which statement receives an added source is the rewriter\'s choice; the oracle only demands that it lies in the data flow of the addressed argument and that no other target changes',
    'where a new keyword argument is placed is not specified; the relative order of all pre-existing arguments must be kept',
    'a one-element list and its bare element are the same value for list-typed keywords (license, default_options, version of dependency, dependencies, link_with): rewritetests pins `license: "GPL"` after a remove',
    'boolean option values are compared case-insensitively in default_options (rewritetests pins "debug=True")',
    'a removal may be refused (exit 0, warning, files unchanged in meaning) for a source that is not an element of a list / call literal feeding one target once: `src += \'x.c\'`, `sources: \'x.c\'`, `extra_files: \'a.h\'`, a files() variable used twice in one target, a value that an identifier contributes to a string list; kwargs add/remove may be refused ("too complex") for a string-list keyword whose value is a bare identifier',
    'a keyword that is deleted and set again within one invocation is a new keyword (its position is not specified)',
    'trees on which `meson rewrite` refuses to work at all with a clean MesonException before any edit (method calls with keyword arguments, array.contains(<list>): the analysis hands AST nodes / flattened lists to the real method) are outside the judged domain: generated expressions of these two shapes are replaced by their literal value (counted)',
]

TARGET_FUNCS = ['executable', 'static_library', 'shared_library', 'library', 'both_libraries', 'shared_module']
BUILD_FILE = 'meson.build'
# characters str.splitlines() treats as line boundaries besides \n
ODD_SEPARATORS = '\x0b\x0c\x1c\x1d\x1e\x85\u2028\u2029'


# =============================================================================================
# 1. reference reading of a tree (refmeson + the build functions the generated trees use)

class Opaque(R.SubprojectVal):
    """an object the core language cannot look into (file, target, dependency); refmeson treats
    SubprojectVal instances as opaque: operators on them are Undefined."""

    def __init__(self, kind: str, key: T.Any):
        super().__init__(kind, {}, set())
        self.kind = kind
        self.key = key


def canon(v: T.Any) -> T.Any:
    """JSON-able, type-faithful normal form of a reference value"""
    if isinstance(v, Opaque):
        return {'o': v.kind, 'k': v.key}
    t = R.tname(v)
    if t == 'bool':
        return {'b': bool(v)}
    if t == 'int':
        return {'i': str(v)}
    if t == 'str':
        return v
    if t == 'arr':
        return [canon(x) for x in v]
    if t == 'dict':
        return {'d': [[k, canon(x)] for k, x in v.items()]}
    if t == 'range':
        return {'r': v.items()}
    return {'?': t}


def flat(v: T.Any) -> T.List[T.Any]:
    if isinstance(v, list):
        out: T.List[T.Any] = []
        for x in v:
            out.extend(flat(x))
        return out
    return [v]


def mentions_id(e: T.Any) -> bool:
    """does the expression AST contain an identifier?"""
    if isinstance(e, list):
        if e and e[0] == 'id':
            return True
        return any(mentions_id(x) for x in e[1:])
    return False


class TreeEval(R.Evaluator):
    """reference evaluator + project()/files()/targets/dependency()."""

    def __init__(self, prog: dict):
        super().__init__(prog)
        self.calls: T.List[dict] = []

    def ordered_args(self, args: T.List[list]) -> T.List[T.Tuple[T.Optional[str], T.Any]]:
        pos, kws = self.evalargs(args)
        out: T.List[T.Tuple[T.Optional[str], T.Any]] = []
        i = 0
        for kw, _ in args:
            if kw is None:
                out.append((None, pos[i]))
                i += 1
            else:
                out.append((kw, kws[kw]))
        return out

    def load_and_run(self, path: str, root: bool = False) -> None:
        if root:
            stmts = self.files[path]
            if stmts and stmts[0][0] == 'expr' and stmts[0][1][0] == 'call' and stmts[0][1][1] == 'project':
                prev = self.cur_file
                self.cur_file = path
                self.calls.append({'fn': 'project', 'file': path, 'dir': '', 'args': self.ordered_args(stmts[0][1][2]),
                                   'asts': {kw: ex for kw, ex in stmts[0][1][2] if kw is not None}})
                self.cur_file = prev
        super().load_and_run(path, root)

    def call(self, fname: str, args: T.List[list], stmt_level: bool) -> T.Any:
        if fname in TARGET_FUNCS:
            oa = self.ordered_args(args)
            rec = {'fn': fname, 'file': self.cur_file, 'dir': self.curdir, 'args': oa,
                   'asts': {kw: ex for kw, ex in args if kw is not None},
                   # a name that mentions a variable (loop variable, option value): static analysis cannot address such a target
                   'computed': bool(args and args[0][0] is None and mentions_id(args[0][1]))}
            self.calls.append(rec)
            name = oa[0][1] if oa and oa[0][0] is None else None
            if R.tname(name) != 'str' if name is not None else True:
                raise R.Undefined('target without a string name')
            return Opaque('target', [self.curdir, name])
        if fname == 'files':
            pos, kws = self.evalargs(args)
            if kws:
                raise R.MesonError('files() takes no keyword arguments')
            out = []
            for x in flat(pos):
                if R.tname(x) != 'str':
                    raise R.Undefined('files() of a non-string')
                out.append(Opaque('file', os.path.normpath(os.path.join(self.curdir, x))))
            return out
        if fname == 'dependency':
            oa = self.ordered_args(args)
            self.calls.append({'fn': 'dependency', 'file': self.cur_file, 'dir': self.curdir, 'args': oa,
                               'asts': {kw: ex for kw, ex in args if kw is not None}})
            name = oa[0][1] if oa and oa[0][0] is None else None
            return Opaque('dep', canon(name) if name is not None else None)
        return super().call(fname, args, stmt_level)


class RefProblem(Exception):
    def __init__(self, kind: str, why: str, file: str = ''):
        super().__init__(f'{kind}: {why}')
        self.kind, self.why, self.file = kind, why, file


def src_paths(curdir: str, vals: T.List[T.Any]) -> T.List[str]:
    out = []
    for x in flat(vals):
        if isinstance(x, Opaque) and x.kind == 'file':
            out.append(x.key)
        elif isinstance(x, Opaque):
            out.append('<' + x.kind + '>')
        elif R.tname(x) == 'str':
            out.append(os.path.normpath(os.path.join(curdir, x)))
        else:
            raise RefProblem('undefined', 'source that is neither a string nor a file')
    return out


class Model:
    """what a tree means: project / targets / dependencies with the value of every argument"""

    def __init__(self) -> None:
        self.project: T.List[T.List[T.Any]] = []           # [[kw|None, canon], ...]
        self.targets: T.List[dict] = []
        self.deps: T.List[dict] = []
        self.trace: T.List[T.Any] = []
        self.env: T.Dict[str, T.Any] = {}
        self.asts: T.Dict[str, T.Dict[str, list]] = {}      # 'project#/' | 'target#name' | 'dependency#name' -> {kw: expression}

    def target(self, name: str) -> T.Optional[dict]:
        hits = [t for t in self.targets if t['name'] == name]
        return hits[0] if len(hits) == 1 else None

    def dep(self, name: str) -> T.Optional[dict]:
        hits = [t for t in self.deps if t['name'] == name]
        return hits[0] if len(hits) == 1 else None

    def snapshot(self) -> dict:
        return {'project': self.project, 'targets': self.targets, 'deps': self.deps}


def parse_files(texts: T.Dict[str, str]) -> T.Dict[str, T.List[list]]:
    out = {}
    for path, text in texts.items():
        try:
            out[path] = R.parse(text)
        except R.ParseError as e:
            raise RefProblem('parse', str(e), path)
        except RecursionError:
            raise RefProblem('undefined', 'nesting too deep for the reference parser', path)
    return out


def read_tree(texts: T.Dict[str, str]) -> Model:
    """texts: {relative path of a build file: text}.  Raises RefProblem(parse|error|undefined)."""
    asts = parse_files(texts)
    ev = TreeEval({'files': asts})
    out = ev.run()
    if out.kind == 'error':
        raise RefProblem('error', out.reason, out.error_file)
    if out.kind == 'undefined':
        raise RefProblem('undefined', out.reason)
    m = Model()
    m.trace = [list(x) for x in out.trace]
    for k, v in out.env.items():
        if k in out.unspec:
            continue
        m.env[k] = canon(v)
    for rec in ev.calls:
        args = rec['args']
        if rec['fn'] == 'project':
            m.project = [[kw, canon(v)] for kw, v in args]
            m.asts['project#/'] = rec['asts']
            continue
        name = args[0][1] if args and args[0][0] is None else None
        m.asts[('dependency#' if rec['fn'] == 'dependency' else 'target#') + str(name)] = rec['asts']
        if rec['fn'] == 'dependency':
            m.deps.append({'name': name, 'file': rec['file'], 'args': [[kw, canon(v)] for kw, v in args]})
            continue
        srcs = [v for kw, v in args[1:] if kw is None] + [v for kw, v in args if kw == 'sources']
        extra = [v for kw, v in args if kw == 'extra_files']
        other = [[kw, canon(v)] for i, (kw, v) in enumerate(args) if (kw is None and i == 0) or (kw is not None and kw not in ('sources', 'extra_files'))]
        m.targets.append({'name': name, 'fn': rec['fn'], 'dir': rec['dir'], 'file': rec['file'],
                          'sources': sorted(src_paths(rec['dir'], srcs)), 'extra': sorted(src_paths(rec['dir'], extra)),
                          'extra_scalar': any(not isinstance(v, list) for v in extra),     # extra_files: 'a.h' (a value that is not a list)
                          'args': other, 'computed': bool(rec.get('computed'))})
    return m


# =============================================================================================
# 2. driving the rewriter

class RunResult:
    def __init__(self, rc: int, kind: str, out: str, err: str, exc: str = ''):
        self.rc, self.kind, self.out, self.err, self.exc = rc, kind, out, err, exc     # kind: ok | mesonexc | bug | traceback | usage

    def info(self) -> T.Optional[dict]:
        for s in (self.out, self.err):
            i = s.find('{')
            if i >= 0:
                try:
                    return json.loads(s[i:s.rfind('}') + 1])
                except ValueError:
                    continue
        return None

    def brief(self) -> str:
        return f'rc={self.rc} {self.kind}: ' + exc_line(self)[:400]


_PARSER: T.Optional[argparse.ArgumentParser] = None


def _parser() -> argparse.ArgumentParser:
    global _PARSER
    if _PARSER is None:
        from mesonbuild import rewriter
        from mesonbuild.mesonmain import CommandLineParser  # noqa: F401  (same formatter class as `meson rewrite`)
        p = argparse.ArgumentParser(prog='meson rewrite')
        rewriter.add_arguments(p, argparse.HelpFormatter)
        _PARSER = p
    return _PARSER


def run_inproc(srcdir: str, argv: T.List[str]) -> RunResult:
    """what `meson rewrite --sourcedir srcdir <argv>` does, inside this process"""
    from mesonbuild import rewriter, mlog
    from mesonbuild.mesonlib import MesonException, MesonBugException
    out, err = io.StringIO(), io.StringIO()
    rc, kind, exc = 0, 'ok', ''
    old_cwd = os.getcwd()
    try:
        os.chdir(srcdir)
        with contextlib.redirect_stdout(out), contextlib.redirect_stderr(err):
            try:
                options = _parser().parse_args(['--sourcedir', srcdir] + argv)
                rc = rewriter.run(options)
                kind = 'ok' if rc == 0 else 'mesonexc'
            except SystemExit as e:
                rc, kind = (e.code if isinstance(e.code, int) else 2), 'usage'
            except MesonBugException as e:
                rc, kind, exc = 1, 'bug', f'{type(e).__name__}: {e}'
            except MesonException as e:
                rc, kind, exc = 1, 'mesonexc', f'{type(e).__name__}: {e}'
            except RecursionError as e:
                rc, kind, exc = 2, 'traceback', f'{type(e).__name__}: {e}'
            except Exception as e:   # what mesonmain.errorhandler reports as "Unhandled python exception"
                rc, kind, exc = 2, 'traceback', f'{type(e).__name__}: {e}'
    finally:
        os.chdir(old_cwd)
        try:
            mlog.set_verbose()
            lg = getattr(mlog, '_logger', None)
            if lg is not None and hasattr(lg, 'log_depth'):
                lg.log_depth.clear()
        except Exception:
            pass
    return RunResult(rc, kind, out.getvalue(), err.getvalue(), exc)


def run_subproc(srcdir: str, argv: T.List[str]) -> RunResult:
    from harness.mesondrv import run_sub
    r = run_sub(['rewrite', '--sourcedir', srcdir] + argv, cwd=srcdir)
    txt = r.out + r.err
    if 'This is a Meson bug and should be reported' in txt and 'Unhandled python exception' not in txt:
        kind = 'bug'
    elif 'Traceback (most recent call last)' in txt or 'Unhandled python exception' in txt:
        kind = 'traceback'
    elif r.rc == 0:
        kind = 'ok'
    elif 'usage:' in r.err and 'error:' in r.err:
        kind = 'usage'
    else:
        kind = 'mesonexc'
    return RunResult(r.rc, kind, r.out, r.err, '')


def strip_private(cmd: dict) -> dict:
    return {k: v for k, v in cmd.items() if not k.startswith('_')}


def cli_argv(cmd: dict) -> T.Optional[T.List[str]]:
    """the CLI spelling of one JSON command (None when the CLI cannot express it)"""
    t = cmd['type']
    if t == 'target':
        opmap = {'src_add': 'add', 'src_rm': 'rm', 'target_add': 'add_target', 'target_rm': 'rm_target',
                 'extra_files_add': 'add_extra_files', 'extra_files_rm': 'rm_extra_files', 'info': 'info'}
        argv = ['target']
        if cmd['operation'] == 'target_add':
            if cmd.get('subdir'):
                argv += ['--subdir', cmd['subdir']]
            argv += ['--type', cmd.get('target_type', 'executable')]
        if cmd['target'].startswith('-') or any(s.startswith('-') for s in cmd.get('sources', [])):
            return None
        return argv + [cmd['target'], opmap[cmd['operation']]] + list(cmd.get('sources', []))
    if t == 'kwargs':
        kw = cmd.get('kwargs', {})
        argv = ['kwargs', cmd['operation'], cmd['function'], cmd['id']]
        if cmd['operation'] == 'delete':
            return argv + list(kw)
        if cmd['operation'] == 'info':
            return argv
        for k, v in kw.items():
            if isinstance(v, bool):
                v = 'true' if v else 'false'
            if not isinstance(v, str) or v.startswith('-'):
                return None
            argv += [k, v]
        return argv
    if t == 'default_options':
        argv = ['default-options', cmd['operation']]
        if cmd['operation'] == 'delete':
            return argv + list(cmd['options'])
        for k, v in cmd['options'].items():
            if not isinstance(v, str) or v.startswith('-'):
                return None
            argv += [k, v]
        return argv
    return None


def step_argv(step: dict) -> T.List[str]:
    cmds = [strip_private(c) for c in step['cmds']]
    if step['mode'] == 'cli':
        a = cli_argv(cmds[0])
        if a is None or len(cmds) != 1:
            raise HarnessError('step marked cli cannot be expressed on the command line')
        return a
    return ['command', json.dumps(cmds)]


# =============================================================================================
# 3. trees on disk

def file_text(stmts: T.List[str]) -> str:
    return ''.join(stmts)


def write_case_tree(root: str, files: T.Dict[str, T.List[str]]) -> T.Dict[str, str]:
    if os.path.isdir(root):
        shutil.rmtree(root)
    texts = {}
    for rel, stmts in files.items():
        p = os.path.join(root, rel)
        os.makedirs(os.path.dirname(p), exist_ok=True)
        text = file_text(stmts)
        with open(p, 'w', encoding='utf-8', newline='') as f:
            f.write(text)
        texts[rel] = text
    return texts


def read_disk_tree(root: str) -> T.Dict[str, T.Optional[str]]:
    """every regular file below root: text ('' newline handling off) or None when it is not UTF-8"""
    out: T.Dict[str, T.Optional[str]] = {}
    for d, _dirs, fs in os.walk(root):
        for fn in fs:
            p = os.path.join(d, fn)
            rel = os.path.relpath(p, root)
            try:
                with open(p, encoding='utf-8', newline='') as f:
                    out[rel] = f.read()
            except UnicodeDecodeError:
                out[rel] = None
    return out


# =============================================================================================
# 4. statement alignment (locality)

def _head(stmt: str) -> str:
    m = re.search(r'[(\[]', stmt)
    return stmt[:m.start()] if m else stmt


def align(stmts: T.List[str], after: str) -> T.List[T.Tuple[int, int, str]]:
    """-> runs (i, j, text): original statements i..j-1 were replaced by `text`; everything else is
    byte-identical and in order.  A pure insertion is a run with i == j."""
    n = len(stmts)

    def rec(i: int, j: int, p: int, q: int) -> T.List[T.Tuple[int, int, str]]:
        # statements i..j-1 against after[p:q]
        while i < j and after.startswith(stmts[i], p) and p + len(stmts[i]) <= q:
            p += len(stmts[i])
            i += 1
        while j > i and q - len(stmts[j - 1]) >= p and after.startswith(stmts[j - 1], q - len(stmts[j - 1])):
            q -= len(stmts[j - 1])
            j -= 1
        if i == j:
            return [(i, i, after[p:q])] if p != q else []
        # an interior statement that survived splits the region
        for k in range(i + 1, j):
            f = after.find(stmts[k], p, q)
            if f >= 0 and stmts[k].strip():
                return rec(i, k, p, f) + rec(k + 1, j, f + len(stmts[k]), q)
        # a blank statement between two changed ones: anchor it together with the head of the statement that follows it (the text
        # in front of the first bracket lies outside every node the tool re-prints, so it is byte-identical in a correct edit)
        for k in range(i + 1, j - 1):
            if stmts[k] and not stmts[k].strip() and stmts[k + 1].strip():
                anchor = stmts[k] + _head(stmts[k + 1])
                f = after.find(anchor, p, q)
                while f >= 0 and not (f == p or after[f - 1] == '\n'):
                    f = after.find(anchor, f + 1, q)
                if f >= 0:
                    return rec(i, k, p, f) + rec(k + 1, j, f + len(stmts[k]), q)
        # two adjacent statements changed: split where the head of the later one starts a line (needed to keep one text per
        # statement for the following steps of a sequence, and to judge each of them against what may change)
        for k in range(i + 1, j):
            h = _head(stmts[k])
            if h.strip():
                f = after.find(h, p, q)
                while f >= 0 and not (f == p or after[f - 1] == '\n'):
                    f = after.find(h, f + 1, q)
                if f > p:
                    return rec(i, k, p, f) + rec(k, j, f, q)
        return [(i, j, after[p:q])]

    return rec(0, n, 0, len(after))


# =============================================================================================
# 5. expression utilities: where parentheses are needed, what a string holds

def unparen(e: list) -> list:
    while e[0] == 'paren':
        e = e[1]
    return e


def child_slots(e: list) -> T.List[T.Tuple[list, int, str]]:
    """(child, minimal precedence the position needs, class of the position) for every operand position"""
    k = e[0]
    if k == 'not':
        return [(e[1], 8, 'not')]
    if k == 'neg':
        return [(e[1], 8, 'uminus')]
    if k == 'bin':
        op = e[1]
        lvl = R.PREC[R._binlevel(op)]
        cls = {2: 'or', 3: 'and', 4: 'compare', 5: 'arith', 6: 'arith'}[lvl]
        if lvl == 4:
            return [(e[2], 5, cls), (e[3], 5, cls)]
        return [(e[2], lvl, cls), (e[3], lvl + 1, cls)]
    if k == 'tern':
        return [(e[1], 2, 'ternary'), (e[2], 2, 'ternary'), (e[3], 2, 'ternary')]
    if k == 'idx':
        return [(e[1], 8, 'index'), (e[2], 1, 'none')]
    if k == 'meth':
        return [(e[1], 8, 'method')] + [(a, 1, 'none') for _, a in e[3]]
    if k == 'call':
        return [(a, 1, 'none') for _, a in e[2]]
    if k == 'arr':
        return [(a, 1, 'none') for a in e[1]]
    if k == 'dict':
        out = []
        for kk, vv in e[1]:
            out += [(kk, 2, 'dictkey'), (vv, 1, 'none')]
        return out
    if k == 'paren':
        return [(e[1], 1, 'none')]
    return []


def site_class(e: list, idx: int) -> str:
    """finer class of the operand position idx of e (arithmetic positions are split by the operator pair)"""
    child, _minp, cls = child_slots(e)[idx]
    if cls != 'arith':
        return cls
    inner = unparen(child)
    iop = inner[1] if inner[0] == 'bin' else inner[0]
    if e[1] == '*' and idx == 1 and iop in ('/', '%'):
        return 'mul-divmod'
    return f'arith[{e[1]}{"L" if idx == 0 else "R"}{iop}]'


def paren_sites(e: list, out: T.Optional[T.List[T.Tuple[str, list]]] = None) -> T.List[T.Tuple[str, list]]:
    """(class, parent node) for every operand that is only correct with parentheses around it"""
    if out is None:
        out = []
    for child, minp, cls in child_slots(e):
        inner = unparen(child)
        if cls != 'none' and R.prec_of(inner) < minp:
            out.append((cls, e))
        paren_sites(child, out)
    return out


def str_features(raw: str, kind: str) -> T.Set[str]:
    out: T.Set[str] = set()
    if kind in ('s', 'fs'):
        try:
            val = R.decode_escapes(raw)
        except R.Undefined:
            val = raw
        if "'" in val:
            out.add('quote')
        if '\\' in val:
            out.add('backslash')
        if '\n' in val or '\r' in val:
            out.add('newline')
        if any((ord(c) < 0x20 and c != '\n') or c == '\x7f' for c in val):
            out.add('control')
        if any(c in ODD_SEPARATORS for c in val):
            out.add('unisep')
        if any(ord(c) > 0x7f for c in val):
            out.add('unicode')
    else:
        out.add('multiline')
        if any(ord(c) > 0x7f for c in raw):
            out.add('unicode')
    if kind in ('fs', 'fm'):
        out.add('fstring')
    return out


def string_classes(e: list) -> T.Set[str]:
    """features of the string literals inside e"""
    out: T.Set[str] = set()
    for x in subexprs(e):
        if x[0] == 'str':
            out |= str_features(x[1], x[2])
    return out


def subexprs(e: list) -> T.Iterator[list]:
    yield e
    for child, _m, _c in child_slots(e):
        yield from subexprs(child)


def has_order_compare(e: list) -> bool:
    return any(x[0] == 'bin' and x[1] in ('<', '<=', '>', '>=') for x in subexprs(e))


def nontrivial_expr(e: list) -> bool:
    if paren_sites(e):
        return True
    for x in subexprs(e):
        if x[0] in ('not', 'neg') and unparen(x[1])[0] in ('bin', 'tern'):
            return True
    return bool(string_classes(e) & {'quote', 'backslash'})


# =============================================================================================
# 6. semantic equality of expressions / attribution of a damaged re-print to a root cause

def sem(e: T.Any) -> T.Any:
    """normal form of an expression AST: no parentheses, strings by denoted value, ints by value"""
    if not isinstance(e, list) or not e:
        return e
    k = e[0]
    if k == 'paren':
        return sem(e[1])
    if k == 'int':
        return ('int', e[1])
    if k == 'str':
        raw, kind = e[1], e[2]
        if kind in ('s', 'fs'):
            try:
                val = R.decode_escapes(raw) if '\n' not in raw else raw
            except R.Undefined:
                val = raw
        else:
            val = raw
        return ('str', val, kind in ('fs', 'fm'))
    if k == 'bin':
        return ('bin', e[1], sem(e[2]), sem(e[3]))
    if k in ('not', 'neg'):
        return (k, sem(e[1]))
    if k == 'tern':
        return ('tern', sem(e[1]), sem(e[2]), sem(e[3]))
    if k == 'idx':
        return ('idx', sem(e[1]), sem(e[2]))
    if k == 'arr':
        return ('arr', tuple(sem(x) for x in e[1]))
    if k == 'dict':
        return ('dict', tuple((sem(a), sem(b)) for a, b in e[1]))
    if k == 'call':
        return ('call', e[1], tuple((kw, sem(a)) for kw, a in e[2]))
    if k == 'meth':
        return ('meth', sem(e[1]), e[2], tuple((kw, sem(a)) for kw, a in e[3]))
    return tuple(e)


def real_reprint(e: list) -> T.Optional[str]:
    """text the tool's parser + AstPrinter produce for the expression (attribution aid only)"""
    from mesonbuild import mparser
    from mesonbuild.ast import AstPrinter, AstIndentationGenerator
    from mesonbuild.mesonlib import MesonException
    code = 'x = [' + R.Printer().expr(e, 1) + ']\n'
    try:
        ast = mparser.Parser(code, '').parse()
        ast.accept(AstIndentationGenerator())
        pr = AstPrinter()
        ast.lines[0].value.accept(pr)
        pr.post_process()
        return pr.result.strip()
    except MesonException:
        return None
    except Exception:
        return None


def isolated_ok(e: list) -> bool:
    txt = real_reprint(e)
    if txt is None:
        return False
    try:
        st = R.parse('x = ' + txt + '\n')
    except (R.ParseError, RecursionError):
        return False
    if len(st) != 1 or st[0][0] != 'assign':
        return False
    return sem(st[0][2]) == sem(['arr', [e]])


STR_CLASS_ORDER = ['quote', 'newline', 'control', 'unisep', 'backslash', 'fstring', 'multiline', 'unicode']


def culprit(e: list) -> T.Optional[str]:
    """smallest sub-expression the tool's printer does not reproduce on its own -> class name"""
    def post(x: list) -> T.Iterator[list]:
        for child, _m, _c in child_slots(x):
            yield from post(child)
        yield x
    for s in post(e):
        if s[0] in ('int', 'bool', 'id'):
            continue
        if isolated_ok(s):
            continue
        if s[0] == 'str':
            feats = str_features(s[1], s[2])
            for c in STR_CLASS_ORDER:
                if c in feats:
                    return 'string-' + c
            return 'string-plain'
        sites = [site_class(s, idx) for idx, (child, minp, cls) in enumerate(child_slots(s)) if cls != 'none' and R.prec_of(unparen(child)) < minp]
        if sites:
            return 'parens-' + sites[0]
        return 'node-' + s[0]
    return None


def call_of(stmt: list) -> T.Optional[list]:
    if stmt[0] == 'expr' and stmt[1][0] == 'call':
        return stmt[1]
    if stmt[0] == 'assign' and stmt[2][0] == 'call':
        return stmt[2]
    return None


def all_exprs_of_stmts(stmts: T.List[list]) -> T.List[list]:
    out: T.List[list] = []
    for s in stmts:
        if s[0] == 'expr':
            out.append(s[1])
        elif s[0] in ('assign', 'plusassign'):
            out.append(s[2])
        elif s[0] == 'if':
            for c, blk in s[1]:
                out.append(c)
                out.extend(all_exprs_of_stmts(blk))
            if s[2]:
                out.extend(all_exprs_of_stmts(s[2]))
        elif s[0] == 'foreach':
            out.append(s[2])
            out.extend(all_exprs_of_stmts(s[3]))
    return out


def ids_by_position(e: T.Any, in_cond: bool, value_ids: T.Set[str], cond_ids: T.Set[str]) -> None:
    """identifiers of an expression, split into those that can contribute to its VALUE and those that only steer it
    (condition of a ternary, operands of a comparison / and / or / not, the index of an index expression)"""
    if not isinstance(e, list) or not e:
        return
    k = e[0]
    if k == 'id':
        (cond_ids if in_cond else value_ids).add(e[1])
        return
    if k == 'tern':
        ids_by_position(e[1], True, value_ids, cond_ids)
        ids_by_position(e[2], in_cond, value_ids, cond_ids)
        ids_by_position(e[3], in_cond, value_ids, cond_ids)
        return
    if k == 'idx':
        ids_by_position(e[1], in_cond, value_ids, cond_ids)
        ids_by_position(e[2], True, value_ids, cond_ids)
        return
    if k == 'not' or (k == 'bin' and R.PREC[R._binlevel(e[1])] <= 4):
        for c, _m, _c in child_slots(e):
            ids_by_position(c, True, value_ids, cond_ids)
        return
    for c, _m, _c in child_slots(e):
        ids_by_position(c, in_cond, value_ids, cond_ids)


def only_steers(call_texts: T.List[str], target: str, var_stmt: str) -> bool:
    """is the variable assigned by `var_stmt` mentioned by the call that declares `target` ONLY in steering positions?"""
    try:
        vs = R.parse(var_stmt)
    except (R.ParseError, RecursionError):
        return False
    names = {st[1] for st in vs if st[0] in ('assign', 'plusassign')}
    if not names:
        return False
    for txt in call_texts:
        try:
            stmts = R.parse(txt)
        except (R.ParseError, RecursionError):
            continue
        for top in all_exprs_of_stmts(stmts):
            if top[0] == 'call' and top[1] in TARGET_FUNCS and top[2] and top[2][0][0] is None and top[2][0][1][:2] == ['str', target]:
                value_ids: T.Set[str] = set()
                cond_ids: T.Set[str] = set()
                for _kw, a in top[2][1:]:
                    ids_by_position(a, False, value_ids, cond_ids)
                return bool(names & cond_ids) and not (names & value_ids)
    return False


def attribute(old_texts: T.List[str]) -> T.Optional[str]:
    """root-cause class for a re-printed statement whose meaning changed: first culprit among the argument
    expressions of the ORIGINAL statement(s)"""
    for txt in old_texts:
        try:
            stmts = R.parse(txt)
        except (R.ParseError, RecursionError):
            continue
        for top in all_exprs_of_stmts(stmts):
            args: T.List[list] = []
            if top[0] == 'call':
                args = [a for _, a in top[2]]
            else:
                args = [top]
            # nested: arguments of calls inside arrays etc. are covered by culprit() itself
            for a in args:
                c = culprit(a)
                if c is not None:
                    return c
    return None


# =============================================================================================
# 7. expected effect of a command on the reference model

REWRITER_KW = {
    'dependency': {'language': 'str', 'method': 'str', 'native': 'bool', 'not_found_message': 'str', 'required': 'bool',
                   'static': 'bool', 'version': 'strlist', 'modules': 'strlist'},
    'target': {'build_by_default': 'bool', 'build_rpath': 'str', 'dependencies': 'idlist', 'gui_app': 'bool',
               'link_with': 'idlist', 'export_dynamic': 'bool', 'implib': 'bool', 'install': 'bool', 'install_dir': 'str',
               'install_rpath': 'str', 'pie': 'bool'},
    'project': {'default_options': 'strlist', 'meson_version': 'str', 'license': 'strlist', 'license_files': 'strlist',
                'subproject_dir': 'str', 'version': 'str'},
}                # docs/markdown/Rewriter.md "Modify a select set of kwargs"; the key lists are the tool's CLI contract
LIST_TYPES = ('strlist', 'idlist')
BOOL_OPTIONS = {'werror', 'debug', 'strip', 'b_lto', 'b_pie', 'b_staticpic', 'b_asneeded', 'b_lundef', 'b_pch', 'errorlogs', 'stdsplit'}


def listify_canon(c: T.Any) -> T.List[T.Any]:
    return c if isinstance(c, list) else [c]


def wanted_value(typ: str, val: T.Any, env: T.Dict[str, T.Any], cli: bool) -> T.Any:
    """canon of the value the user asked for"""
    if typ == 'str':
        return str(val)
    if typ == 'bool':
        if isinstance(val, str):
            return {'b': val.strip().lower() == 'true'}
        return {'b': bool(val)}
    if typ == 'strlist':
        return [str(x) for x in val] if isinstance(val, list) else str(val)
    if typ == 'idlist':
        ids = val if isinstance(val, list) else [val]
        vals = [env.get(i, {'undefined-id': i}) for i in ids]
        return vals if isinstance(val, list) else vals[0]
    raise HarnessError(typ)


def get_kw(args: T.List[T.List[T.Any]], key: str) -> T.Optional[T.Any]:
    for kw, v in args:
        if kw == key:
            return v
    return None


def set_kw(args: T.List[T.List[T.Any]], key: str, val: T.Any) -> None:
    for a in args:
        if a[0] == key:
            a[1] = val
            return
    args.append([key, val])


def del_kw(args: T.List[T.List[T.Any]], key: str) -> None:
    args[:] = [a for a in args if a[0] != key]


def opt_split(s: str) -> T.Tuple[str, str]:
    k, _, v = s.partition('=')
    return k, v


def apply_cmd(snap: dict, cmd: dict, env: T.Dict[str, T.Any], cli: bool) -> T.Tuple[dict, dict]:
    """-> (expected snapshot, notes).  notes['may'] lists choices the rewriter may legitimately not perform."""
    s = copy.deepcopy(snap)
    notes: dict = {}
    t = cmd['type']
    if t == 'target':
        op = cmd['operation']
        name = cmd.get('_name', cmd['target'])
        tg = next((x for x in s['targets'] if x['name'] == name), None)
        if op == 'info':
            return s, notes
        if op == 'target_add':
            sub = cmd.get('subdir', '')
            s['targets'].append({'name': cmd['target'], 'fn': cmd.get('target_type', 'executable'), 'dir': sub,
                                 'file': os.path.join(sub, BUILD_FILE) if sub else BUILD_FILE,
                                 'sources': sorted(os.path.normpath(os.path.join(sub, x)) for x in cmd.get('sources', [])),
                                 'extra': [], 'args': [[None, cmd['target']]], '_new': True})
            return s, notes
        assert tg is not None, 'generator addressed an unknown target'
        if op == 'target_rm':
            s['targets'] = [x for x in s['targets'] if x is not tg]
            return s, notes
        field = 'sources' if op.startswith('src_') else 'extra'
        files = [os.path.normpath(x) for x in cmd.get('sources', [])]
        if op.endswith('_add'):
            tg[field] = sorted(tg[field] + [f for f in sorted(set(files)) if f not in tg[field]])
        else:
            tg[field] = sorted(f for f in tg[field] if f not in files)
        return s, notes
    if t == 'kwargs':
        fn = cmd['function']
        op = cmd['operation']
        if op == 'info':
            return s, notes
        if fn == 'project':
            args = s['project']
        elif fn == 'target':
            tg = next((x for x in s['targets'] if x['name'] == cmd.get('_name', cmd['id'])), None)
            assert tg is not None
            args = tg['args']
        else:
            dp = next((x for x in s['deps'] if x['name'] == cmd.get('_name', cmd['id'])), None)
            assert dp is not None
            args = dp['args']
        for key, val in sorted(cmd.get('kwargs', {}).items()):
            typ = REWRITER_KW[fn][key]
            if op == 'delete':
                del_kw(args, key)
            elif op == 'set':
                set_kw(args, key, wanted_value(typ, val, env, cli))
            else:
                cur = get_kw(args, key)
                curl = [] if cur is None else listify_canon(cur)
                if op == 'add':
                    new = curl + listify_canon(wanted_value(typ, val, env, cli))
                elif op == 'remove':
                    rm = listify_canon(wanted_value(typ, val, env, cli))
                    new = [x for x in curl if x not in rm]
                else:
                    rx = val if isinstance(val, list) else [val]
                    new = [x for x in curl if not (isinstance(x, str) and any(re.match(r, x) for r in rx))]
                set_kw(args, key, new)
        return s, notes
    if t == 'default_options':
        args = s['project']
        cur = get_kw(args, 'default_options')
        curl = [] if cur is None else listify_canon(cur)
        keys = list(cmd['options'])
        new = [x for x in curl if not (isinstance(x, str) and opt_split(x)[0] in keys)]
        if cmd['operation'] == 'set':
            for k in sorted(keys):
                new.append(f'{k}={cmd["options"][k]}')
        set_kw(args, 'default_options', new)
        return s, notes
    raise HarnessError('unknown command type ' + t)


def norm_list_kw(fn: str, args: T.List[T.List[T.Any]]) -> T.List[T.List[T.Any]]:
    """a one-element list and its element are the same value for list-typed keywords"""
    out = []
    table = REWRITER_KW.get(fn, {})
    for kw, v in args:
        if kw is not None and table.get(kw) in LIST_TYPES:
            v = listify_canon(v)
            if kw == 'default_options':
                v = [norm_option(x) for x in v]
            if not v:
                continue          # an empty list and an absent keyword are the same value
        out.append([kw, v])
    return out


def norm_option(x: T.Any) -> T.Any:
    if isinstance(x, str) and '=' in x:
        k, v = opt_split(x)
        if v.lower() in ('true', 'false'):
            return f'{k}={v.lower()}'
    return x


# =============================================================================================
# 8. the oracle for one case

class Skip(Exception):
    """the case is outside the judged domain (counted, never a failure)"""


def info_steps(snap: dict) -> T.List[dict]:
    cmds: T.List[dict] = []
    for tg in snap['targets']:
        if not tg.get('computed'):
            cmds.append({'type': 'target', 'target': tg.get('_id', tg['name']), 'operation': 'info'})
    cmds.append({'type': 'kwargs', 'function': 'project', 'id': '/', 'operation': 'info'})
    for tg in snap['targets']:
        if not tg.get('computed'):
            cmds.append({'type': 'kwargs', 'function': 'target', 'id': tg.get('_id', tg['name']), 'operation': 'info'})
    for dp in snap['deps']:
        if isinstance(dp['name'], str):
            cmds.append({'type': 'kwargs', 'function': 'dependency', 'id': dp['name'], 'operation': 'info'})
    return cmds


def literal_plain(e: list) -> T.Tuple[bool, T.Any]:
    """(is a literal `kwargs info` can show, the value it must show).  Docs: info prints "all available information";
    the unit tests pin strings / booleans / lists of them / string-keyed dicts, identifiers appear by name."""
    k = e[0]
    if k == 'str' and e[2] in ('s', 'm'):
        try:
            return True, R.string_value(e[1], e[2])
        except R.Undefined:
            return False, None
    if k == 'bool':
        return True, bool(e[1])
    if k == 'int':
        return True, int(e[1])
    if k == 'id':
        return True, e[1]
    return False, None


def info_value_ok(v: T.Any, e: list) -> bool:
    """value printed by `kwargs info` for a keyword whose expression is e: literals must be shown faithfully,
    anything else may be shown as null"""
    if e[0] == 'paren':
        return v is None or info_value_ok(v, e[1])
    if e[0] == 'arr':
        if v is None:
            return False
        if not isinstance(v, list):
            # the tool prints a one-element list as its element after an edit; accept scalar for 1 element
            return len(e[1]) == 1 and info_value_ok(v, e[1][0])
        if len(v) != len(e[1]):
            return False
        return all(x is None or (literal_plain(el)[0] and literal_plain(el)[1] == x and type(literal_plain(el)[1]) is type(x)) or not literal_plain(el)[0]
                   for x, el in zip(v, e[1]))
    if e[0] == 'dict':
        if v is None:
            return True
        if not isinstance(v, dict):
            return False
        want = {}
        for kk, vv in e[1]:
            okk, kval = literal_plain(kk)
            if okk and isinstance(kval, str) and unparen(kk)[0] == 'str':
                want[kval] = vv
        for kk, x in v.items():
            if kk not in want:
                return False
            ok, val = literal_plain(want[kk])
            if x is not None and ok and (val != x or type(val) is not type(x)):
                return False
        return True
    ok, val = literal_plain(e)
    if not ok:
        return True
    return v == val and type(v) is type(val)


def compare_info(info: T.Optional[dict], snap: dict, asts: T.Optional[T.Dict[str, T.Dict[str, list]]] = None) -> T.Optional[T.Tuple[str, str]]:
    """info dump of the rewriter against the reference snapshot -> (sig suffix, message) or None"""
    if info is None:
        return ('no-json', 'the info command printed no JSON object')
    tinfo = info.get('target', {})
    byname: T.Dict[str, T.List[dict]] = {}
    for tid, d in tinfo.items():
        byname.setdefault(d.get('name'), []).append(d)
    addressable = [t for t in snap['targets'] if not t.get('computed')]
    for tg in addressable:
        cands = byname.get(tg['name'], [])
        if len(cands) != 1:
            return ('target-missing', f'target {tg["name"]!r}: {len(cands)} entries in the info dump, expected 1')
        d = cands[0]
        for field, key in (('sources', 'sources'), ('extra', 'extra_files')):
            got = sorted(os.path.normpath(x) if x != 'unknown' else x for x in d.get(key, []))
            want = tg[field]
            if 'unknown' in got:
                known = [x for x in got if x != 'unknown']
                if any(x not in want for x in known):
                    return (key, f'target {tg["name"]!r}: info reports {key} {got}, reference reading of the file gives {want}')
                continue
            if got != want:
                return (key, f'target {tg["name"]!r}: info reports {key} {got}, reference reading of the file gives {want}')
    if len(tinfo) != len(addressable):
        return ('target-count', f'info lists {sorted(tinfo)} but the reference finds targets {[t["name"] for t in addressable]}')
    kinfo = info.get('kwargs', {})
    checks: T.List[T.Tuple[str, str, T.List[T.List[T.Any]]]] = [('project#/', 'project#/', snap['project'])]
    for tg in addressable:
        checks.append((f'target#{tg.get("_id", tg["name"])}', f'target#{tg["name"]}', tg['args']))
    for dp in snap['deps']:
        if isinstance(dp['name'], str):
            checks.append((f'dependency#{dp["name"]}', f'dependency#{dp["name"]}', dp['args']))
    for key, akey, args in checks:
        d = kinfo.get(key)
        if d is None:
            return ('kwargs-missing', f'no kwargs info for {key}')
        want_keys = [kw for kw, _v in args if kw is not None]
        if key.startswith('target#'):
            d = {k: v for k, v in d.items() if k not in ('sources', 'extra_files')}
        if set(d) != set(want_keys):
            return ('kwargs-keys', f'{key}: info lists keywords {sorted(d)}, the file has {sorted(want_keys)}')
        ast = (asts or {}).get(akey, {})
        for kw, v in d.items():
            if kw in ast and not info_value_ok(v, ast[kw]):
                return ('kwargs-value', f'{key}: info reports {kw} = {v!r} for the expression {R.Printer().expr(ast[kw], 1)}')
    return None


def snap_diff(exp: dict, got: dict, may: dict) -> T.Optional[T.Tuple[str, str]]:
    """expected snapshot vs reference reading of the tree after the command"""
    if norm_list_kw('project', exp['project']) != norm_list_kw('project', got['project']):
        return ('project-args', f'project() arguments: expected {exp["project"]}, file now means {got["project"]}')
    en = [t['name'] for t in exp['targets']]
    gn = [t['name'] for t in got['targets']]
    if sorted(map(str, en)) != sorted(map(str, gn)):
        return ('target-set', f'targets expected {en}, file now defines {gn}')
    for te in exp['targets']:
        tg = next(t for t in got['targets'] if t['name'] == te['name'])
        for field in ('sources', 'extra'):
            if te[field] != tg[field]:
                lo = may.get((te['name'], field))
                if lo is not None:
                    # bounds as multisets: everything expected is there, nothing occurs more often than expected / than it did before
                    cg, cl, cu = collections.Counter(tg[field]), collections.Counter(lo[0]), collections.Counter(lo[1])
                    if not (cl - cg) and not (cg - cu):
                        continue
                return (field, f'target {te["name"]!r}: {field} expected {te[field]}, file now means {tg[field]}')
        if te.get('_new'):
            if te['fn'] != tg['fn'] or te['dir'] != tg['dir']:
                return ('new-target', f'new target {te["name"]!r}: expected {te["fn"]} in {te["dir"]!r}, got {tg["fn"]} in {tg["dir"]!r}')
            continue
        if te['fn'] != tg['fn'] or te['dir'] != tg['dir']:
            return ('target-kind', f'target {te["name"]!r}: was {te["fn"]} in {te["dir"]!r}, now {tg["fn"]} in {tg["dir"]!r}')
        ea, ga = norm_list_kw('target', te['args']), norm_list_kw('target', tg['args'])
        if ea != ga:
            if [a[0] for a in ea] != [a[0] for a in ga]:
                if sorted(str(a[0]) for a in ea) == sorted(str(a[0]) for a in ga):
                    return ('arg-order', f'target {te["name"]!r}: argument order expected {[a[0] for a in ea]}, now {[a[0] for a in ga]}')
                return ('arg-set', f'target {te["name"]!r}: arguments expected {[a[0] for a in ea]}, now {[a[0] for a in ga]}')
            bad = next(i for i in range(len(ea)) if ea[i] != ga[i])
            return ('arg-value:' + str(ea[bad][0] or '#0'), f'target {te["name"]!r}: argument {ea[bad][0] or "#0"} expected to mean {ea[bad][1]!r}, now means {ga[bad][1]!r}')
    if len(exp['deps']) != len(got['deps']):
        return ('dep-set', f'dependency() calls expected {[d["name"] for d in exp["deps"]]}, now {[d["name"] for d in got["deps"]]}')
    for de, dg in zip(exp['deps'], got['deps']):
        ea, ga = norm_list_kw('dependency', de['args']), norm_list_kw('dependency', dg['args'])
        if ea != ga:
            if [a[0] for a in ea] != [a[0] for a in ga]:
                if sorted(str(a[0]) for a in ea) == sorted(str(a[0]) for a in ga):
                    return ('arg-order', f'dependency {de["name"]!r}: argument order expected {[a[0] for a in ea]}, now {[a[0] for a in ga]}')
                return ('arg-set', f'dependency {de["name"]!r}: arguments expected {[a[0] for a in ea]}, now {[a[0] for a in ga]}')
            bad = next(i for i in range(len(ea)) if ea[i] != ga[i])
            return ('arg-value:' + str(ea[bad][0] or '#0'), f'dependency {de["name"]!r}: argument {ea[bad][0] or "#0"} expected to mean {ea[bad][1]!r}, now means {ga[bad][1]!r}')
    return None


def order_kept(old: T.List[T.List[T.Any]], new: T.List[T.List[T.Any]], freed: T.Collection[str] = ()) -> bool:
    """relative order of the keywords present in both lists (freed: keywords the step deleted - one that is set again in the same
    invocation is a new keyword, and where a new keyword goes is not specified)"""
    common = [a[0] for a in old if a[0] is not None and a[0] not in freed and any(b[0] == a[0] for b in new)]
    seen = [b[0] for b in new if b[0] in common]
    return common == seen


def exc_line(r: 'RunResult') -> str:
    """'<ExceptionType>: message' of a crash, from the in-process exception or the subprocess traceback"""
    if r.exc:
        return r.exc
    lines = [l for l in (r.err + '\n' + r.out).splitlines() if l.strip()]
    for l in reversed(lines):
        if re.match(r'^[A-Za-z_][\w.]*(Error|Exception|Exit|Interrupt)\b', l.strip()):
            return l.strip()
    for l in lines:
        if 'ERROR:' in l:
            return l.strip()
    return lines[-1] if lines else 'unknown'


def slug(s: str, n: int = 48) -> str:
    s = re.sub(r"'[^']*'|\"[^\"]*\"|/[\w/.\-]+|\d+", '', s)
    s = re.sub(r'[^A-Za-z]+', '-', s).strip('-')
    return s[:n]


def universal(text: str) -> str:
    """the text as any text-mode reader (and the tool itself) sees it: CRLF and CR are line ends"""
    return text.replace('\r\n', '\n').replace('\r', '\n')


def raw_newline_strings(text: str) -> int:
    try:
        toks = R.lex(text)
    except R.ParseError:
        return 0
    return sum(1 for t in toks if t.kind == 'str' and t.extra in ('s', 'fs') and '\n' in t.val)


class Judge:
    """runs one case through `runner` (in-process or subprocess) inside `root`"""

    def __init__(self, case: dict, runner: T.Callable[[str, T.List[str]], RunResult], root: str, ev: T.Optional[Evidence] = None):
        self.case = case
        self.run = runner
        self.root = root
        self.ev = ev
        self.reprinted_nontrivial = False
        self.outcomes: T.List[str] = []
        self.skip_detail = ''

    def fail(self, sig: str, msg: str) -> Failure:
        return Failure(sig, self.case, msg)

    def judge(self) -> T.Optional[Failure]:
        case = self.case
        stmts: T.Dict[str, T.List[str]] = {k: list(v) for k, v in case['files'].items()}
        texts = write_case_tree(self.root, stmts)
        try:
            before = read_tree(texts)
        except RefProblem as e:
            raise Skip(f'reference cannot read the generated tree: {e.kind}')
        snap = before.snapshot()
        env = dict(before.env)
        names = [t['name'] for t in snap['targets']]
        if len(set(map(str, names))) != len(names):
            # same name in different directories: address by the id the tool prints
            pass
        # ---- the untouched tree as the tool sees it
        r0 = self.run(self.root, ['command', json.dumps(info_steps(snap))])
        if r0.kind in ('bug', 'traceback'):
            feats = self.features()
            why = 'order-compare' if feats.get('order_compare') and 'Unhandled node type' in (r0.exc + r0.err + r0.out) else slug(exc_line(r0))
            return self.fail(f'analysis-crash/{why}',
                             f'`rewrite command [info ...]` on the UNTOUCHED tree ends with {r0.brief()}\nfiles:\n{self.show(texts)}')
        if r0.kind != 'ok':
            self.skip_detail = r0.brief() + '\n' + self.show(texts)
            raise Skip('tool rejects the untouched tree: ' + slug(r0.exc or r0.err))
        d0 = compare_info(r0.info(), snap, before.asts)
        if d0 is not None:
            self.skip_detail = d0[1] + '\n' + self.show(texts)
            raise Skip('info on the untouched tree disagrees with the reference: ' + d0[0])
        if read_disk_tree(self.root) != texts:
            return self.fail('info-modifies-files', 'an info-only command changed files on disk')
        # ---- the steps
        for si, step in enumerate(case['steps']):
            cli = step['mode'] == 'cli'
            exp = snap
            may: dict = {}
            may_files: T.Dict[T.Tuple[str, str], T.Set[str]] = {}
            allowed: T.Dict[str, T.Set[int]] = {}
            appends: T.Set[str] = set()
            expect = 'done'
            vars_free: T.Set[str] = set()
            for cmd in step['cmds']:
                if cmd.get('_expect') == 'error':
                    expect = 'error'
                    continue
                exp, _n = apply_cmd(exp, cmd, env, cli)
                for f, i in cmd.get('_allowed', []):
                    allowed.setdefault(f, set()).add(i)
                if cmd.get('_append'):
                    appends.add(cmd['_append'])
                vars_free |= set(cmd.get('_vars', []))
                e = cmd.get('_expect', 'done')
                if e == 'may' and expect == 'done':
                    expect = 'may'
                for key, files in cmd.get('_may', {}).items():
                    tname, field = key.split('|')
                    may_files.setdefault((tname, field), set()).update(files)
            for (tname, field), files in may_files.items():
                # sources that may legitimately stay: bounds [exp, exp + may]
                te = next((t for t in exp['targets'] if t['name'] == tname), None)
                tb = next((t for t in snap['targets'] if t['name'] == tname), None)
                if te is not None:
                    upper = collections.Counter(te[field])
                    for f in files:        # a file that may stay: as often as it was there before the step
                        upper[f] = max(upper[f], tb[field].count(f) if tb is not None else 0, 1)
                    may[(tname, field)] = (list(te[field]), sorted(upper.elements()))
            before_texts = dict(texts)
            r = self.run(self.root, step_argv(step))
            self.outcomes.append(r.kind)
            after = read_disk_tree(self.root)
            what = self.describe_step(step)
            if r.kind in ('bug', 'traceback'):
                changed = after != before_texts
                return self.fail(f'crash/{self.opclass(step)}:{slug(exc_line(r))}',
                                 f'{what} ends with {r.brief()}' + (' AND files were modified' if changed else '') + f'\nfiles:\n{self.show(before_texts)}')
            if r.kind == 'usage':
                raise Skip('command line not accepted by argparse')
            if r.kind == 'mesonexc':
                if after != before_texts:
                    return self.fail(f'partial-edit/{self.opclass(step)}',
                                     f'{what} failed ({r.brief()}) but files were modified:\n{self.show_diff(before_texts, after)}')
                if expect == 'done':
                    return self.fail(f'refused/{self.opclass(step)}',
                                     f'{what} on a shape the documentation shows working failed: {r.brief()}\nfiles:\n{self.show(before_texts)}')
                continue       # clean refusal, nothing changed; model unchanged
            if expect == 'error':
                if after != before_texts:
                    return self.fail(f'invalid-command-edits/{self.opclass(step)}',
                                     f'{what} must be rejected, but it exited 0 and modified files:\n{self.show_diff(before_texts, after)}')
                continue
            if set(after) != set(before_texts):
                return self.fail('locality/file-set', f'{what}: files on disk before {sorted(before_texts)}, after {sorted(after)}')
            if any(v is None for v in after.values()):
                return self.fail('parse/not-utf8', f'{what}: a build file is no longer valid UTF-8')
            if after == before_texts:
                if expect == 'may':
                    continue
                if exp == snap or snap_diff(exp, snap, {}) is None:
                    continue          # nothing was asked for (info, add of a present file, set of the value the keyword already has...)
                return self.fail(f'no-effect/{self.opclass(step)}',
                                 f'{what} exited 0 but changed nothing ({r.err.strip()[-300:]!r})\nfiles:\n{self.show(before_texts)}')
            # -- locality, statement by statement
            touched_old: T.List[str] = []
            new_stmts: T.Dict[str, T.List[str]] = {}
            for rel, old in stmts.items():
                at = T.cast(str, after[rel])
                runs = align(old, at) if at != before_texts[rel] else []
                cur = list(old)
                is_rm = any(c['type'] == 'target' and c['operation'] == 'target_rm' for c in step['cmds'])
                for i, j, txt in reversed(runs):
                    ok = all(k in allowed.get(rel, ()) for k in range(i, j))
                    if i == j:
                        # appended text; blank statements that end the file cannot be told from the line break the tool appends
                        ok = rel in appends and all(not x.strip() for x in old[i:])
                    elif not ok and is_rm and any(k in allowed.get(rel, ()) for k in range(i, j)):
                        # removing a statement may take the blank space around it along; the neighbours themselves must survive
                        keep = ''.join(old[k] for k in range(i, j) if k not in allowed.get(rel, ()))
                        ok = ''.join(txt.split()) .endswith(''.join(keep.split())) and txt.strip().endswith(keep.strip())
                    if not ok:
                        return self.fail(self.locality_sig(before_texts[rel], old, i, j, step, txt),
                                         f'{what}: text outside the addressed statement(s) changed in {rel}: original statement(s) #{i}..{j - 1} '
                                         f'{"".join(old[i:j])!r} became {txt!r}; allowed to change: {sorted(allowed.get(rel, ()))}\n{self.show_diff(before_texts, after)}')
                    touched_old.extend(old[i:j])
                    keepers = [k for k in range(i, j) if k not in allowed.get(rel, ())]
                    if i == j:
                        cur.append(txt)
                    elif is_rm and keepers:
                        # a removed statement took white space of its neighbours along: the text that is left belongs to the
                        # surviving statement (its index must stay valid for the following steps)
                        cur[i:j] = [''] * (j - i)
                        cur[keepers[-1]] = txt
                    else:
                        cur[i:j] = [txt] + [''] * (j - i - 1)
                new_stmts[rel] = cur
            for rel in after:
                if raw_newline_strings(universal(T.cast(str, after[rel]))) > raw_newline_strings(universal(before_texts[rel])):
                    return self.fail('reprint/string-newline-raw',
                                     f'{what}: an escape \\n / \\r inside a single-quoted string was written back as a raw line break (the tool itself warns '
                                     f'that this "will become a hard error", and its line counting is off afterwards)\n{self.show_diff(before_texts, after)}')
            # -- meaning
            self.note_nontrivial(touched_old)
            try:
                got = read_tree({k: universal(T.cast(str, v)) for k, v in after.items()})
            except RefProblem as e:
                cls = attribute(touched_old)
                kind = 'does not parse' if e.kind == 'parse' else f'no longer evaluates ({e.kind}: {e.why})'
                sig = f'reprint/{cls}' if cls else f'effect/{self.opclass(step)}:' + ('unparsable' if e.kind == 'parse' else 'no-longer-evaluates')
                return self.fail(sig, f'{what}: {e.file or "tree"} {kind}\n{self.show_diff(before_texts, after)}')
            gsnap = got.snapshot()
            d = snap_diff(exp, gsnap, may)
            if d is not None and expect == 'may' and snap_diff(snap, gsnap, {}) is None:
                d = None
                exp = snap
            if d is not None:
                sig = self.value_sig(step, d[0], touched_old)
                return self.fail(sig, f'{what}: {d[1]}\n{self.show_diff(before_texts, after)}')
            # pre-existing keyword order of every call
            freed = {k for c in step['cmds'] if c['type'] == 'kwargs' and c['operation'] == 'delete' for k in c.get('kwargs', {})}
            for a_old, a_new, label in self.arg_lists(snap, gsnap):
                if not order_kept(a_old, a_new, freed):
                    return self.fail('reprint/arg-order', f'{what}: keyword order of {label} changed from {[a[0] for a in a_old]} to {[a[0] for a in a_new]}')
            # other variables / messages
            for k, v in before.env.items():
                if k in vars_free:
                    continue
                if got.env.get(k) != v:
                    cls = attribute(touched_old) or 'variable-changed'
                    return self.fail(f'reprint/{cls}' if cls != 'variable-changed' else 'locality/variable-changed',
                                     f'{what}: variable {k} was {v!r}, now {got.env.get(k)!r}\n{self.show_diff(before_texts, after)}')
            if got.trace != before.trace:
                return self.fail('locality/messages-changed', f'{what}: message() output changed from {before.trace} to {got.trace}')
            # -- info of the tool on the new tree
            if d is None and may:
                exp = self.adopt(exp, gsnap, may)
            ri = self.run(self.root, ['command', json.dumps(info_steps(exp))])
            if ri.kind != 'ok':
                if ri.kind in ('bug', 'traceback'):
                    return self.fail(f'crash/info-after-{self.opclass(step)}:{slug(exc_line(ri))}', f'after {what}, `info` ends with {ri.brief()}\n{self.show_diff(before_texts, after)}')
                return self.fail(f'info-after/{self.opclass(step)}:rejected', f'after {what}, the tool no longer accepts the tree: {ri.brief()}\n{self.show_diff(before_texts, after)}')
            di = compare_info(ri.info(), exp, got.asts)
            if di is not None:
                return self.fail(f'info-after/{self.opclass(step)}:{di[0]}', f'after {what}: {di[1]}\n{self.show_diff(before_texts, after)}')
            if read_disk_tree(self.root) != after:
                return self.fail('info-modifies-files', 'an info-only command changed files on disk')
            # next step starts from here
            stmts = new_stmts
            texts = T.cast(T.Dict[str, str], after)
            snap = exp
            for t in snap['targets']:
                t.pop('_new', None)
            before = got
            env = dict(got.env)
        # ---- laws over the whole sequence
        law = case.get('law')
        if law == 'restore-sources':
            first = read_tree({k: file_text(v) for k, v in case['files'].items()}).snapshot()
            for t0 in first['targets']:
                t1 = next((t for t in snap['targets'] if t['name'] == t0['name']), None)
                if t1 is None or t0['sources'] != t1['sources'] or t0['extra'] != t1['extra']:
                    return self.fail('law/source-set-not-restored', f'sequence {[self.describe_step(s) for s in case["steps"]]} should leave the source sets as they were: {t0} vs {t1}')
        return None

    # -- helpers -------------------------------------------------------------------------------
    def adopt(self, exp: dict, got: dict, may: dict) -> dict:
        exp = copy.deepcopy(exp)
        for (tname, field), _b in may.items():
            te = next((t for t in exp['targets'] if t['name'] == tname), None)
            tg = next((t for t in got['targets'] if t['name'] == tname), None)
            if te is not None and tg is not None:
                te[field] = list(tg[field])
        return exp

    def arg_lists(self, old: dict, new: dict) -> T.Iterator[T.Tuple[list, list, str]]:
        yield old['project'], new['project'], 'project()'
        for t in old['targets']:
            n = next((x for x in new['targets'] if x['name'] == t['name']), None)
            if n is not None:
                yield t['args'], n['args'], f'target {t["name"]!r}'
        for a, b in zip(old['deps'], new['deps']):
            yield a['args'], b['args'], f'dependency {a["name"]!r}'

    def features(self) -> dict:
        feats = {'order_compare': False}
        for stl in self.case['files'].values():
            for txt in stl:
                try:
                    st = R.parse(txt)
                except (R.ParseError, RecursionError):
                    continue
                for top in all_exprs_of_stmts(st):
                    if top[0] == 'call' and has_order_compare(top):
                        feats['order_compare'] = True
        return feats

    def note_nontrivial(self, touched_old: T.List[str]) -> None:
        for txt in touched_old:
            try:
                st = R.parse(txt)
            except (R.ParseError, RecursionError):
                continue
            for top in all_exprs_of_stmts(st):
                if nontrivial_expr(top):
                    self.reprinted_nontrivial = True

    def opclass(self, step: dict) -> str:
        c = step['cmds'][-1]
        if c['type'] == 'target':
            return c['operation']
        if c['type'] == 'kwargs':
            return 'kwargs-' + c['operation'] + '-' + c['function']
        return 'default_options-' + c['operation']

    def describe_step(self, step: dict) -> str:
        if step['mode'] == 'cli':
            return '`meson rewrite ' + ' '.join(step_argv(step)) + '`'
        return '`meson rewrite command ' + json.dumps([strip_private(c) for c in step['cmds']]) + '`'

    def locality_sig(self, text: str, old: T.List[str], i: int, j: int, step: T.Optional[dict] = None, txt: str = '') -> str:
        if any(c in text for c in ODD_SEPARATORS):
            return 'splice/odd-line-separator'
        if raw_newline_strings(text):
            return 'splice/after-raw-newline-string'
        was = ''.join(old[i:j])
        for c in (step or {}).get('cmds', []):
            if c['type'] == 'target' and c['operation'] in ('src_add', 'extra_files_add'):
                names = ["'" + os.path.basename(f) + "'" for f in c.get('sources', [])] + ['/' + os.path.basename(f) + "'" for f in c.get('sources', [])]
                if any(n in txt and n not in was for n in names) and only_steers(old, str(c.get('_name', c.get('target'))), was):
                    # the new file went into a list outside the data flow of the addressed argument (a list that the source
                    # expression only mentions in a condition / comparison / index)
                    return 'effect/add:foreign-list-extended'
        return 'locality/other-statement-changed'

    def value_sig(self, step: dict, what: str, touched_old: T.List[str]) -> str:
        key = what.split(':', 1)[1] if ':' in what else None
        what = what.split(':', 1)[0]
        for c in step['cmds']:
            if c['type'] == 'default_options' and c['operation'] == 'set' and what == 'project-args':
                # same root cause as below: the value reaches StringNode() as if it were source text
                if any(isinstance(x, str) and '\\' in x for x in c['options'].values()):
                    return 'effect/kwargs-set:backslash-interpreted'
            if c['type'] == 'kwargs' and c['operation'] in ('set', 'add') and (key is None or key in c.get('kwargs', {})):
                vals = [v for k, v in c['kwargs'].items() if key is None or k == key]
                flat_vals = [x for v in vals for x in (v if isinstance(v, list) else [v])]
                if any(isinstance(x, str) and '\\' in x for x in flat_vals):
                    return 'effect/kwargs-set:backslash-interpreted'
                if step['mode'] == 'cli' and any(isinstance(x, str) and x.strip().lower() == 'false' or x is False for x in flat_vals) \
                        and any(REWRITER_KW[c['function']].get(k) == 'bool' for k in c['kwargs'] if key is None or k == key):
                    return 'effect/kwargs-set:cli-bool-false'
        if what in ('arg-value', 'project-args'):
            cls = attribute(touched_old)
            if cls is not None:
                return f'reprint/{cls}'
        return f'effect/{self.opclass(step)}:{what}'

    def show(self, texts: T.Dict[str, T.Any]) -> str:
        return '\n'.join(f'--- {k}\n{v}' for k, v in sorted(texts.items()))[:3000]

    def show_diff(self, a: T.Dict[str, T.Any], b: T.Dict[str, T.Any]) -> str:
        out = []
        for k in sorted(set(a) | set(b)):
            if a.get(k) != b.get(k):
                out.append(f'--- {k} before\n{a.get(k)}\n+++ {k} after\n{b.get(k)}')
        return '\n'.join(out)[:3500]


# =============================================================================================
# 9. running a case (in-process, confirmed in a fresh subprocess)

_SCRATCH: T.Optional[str] = None
_COUNTER = 0


def _case_dir() -> str:
    global _SCRATCH, _COUNTER
    if _SCRATCH is None or not os.path.isdir(_SCRATCH) or _SCRATCH_PID[0] != os.getpid():
        _SCRATCH = make_scratch('C17')
        _SCRATCH_PID[0] = os.getpid()
    _COUNTER += 1
    return os.path.join(_SCRATCH, f'p{_COUNTER}')


_SCRATCH_PID = [0]


def case_fp(case: dict) -> bytes:
    return fp({'files': case['files'], 'steps': case['steps']})


def check_case(case: dict, ev: T.Optional[Evidence] = None, count: bool = True) -> T.Optional[Failure]:
    root = _case_dir()
    j = Judge(case, run_inproc, root, ev)
    f: T.Optional[Failure] = None
    skipped = None
    try:
        f = j.judge()
    except Skip as s:
        skipped = str(s)
        if os.environ.get('C17_DEBUG_SKIPS'):
            print('SKIP', skipped, '\n', j.skip_detail[:1500])
    finally:
        shutil.rmtree(root, ignore_errors=True)
    if skipped is not None and case.get('_pinned'):
        # a pinned scenario is known to be readable by the reference and by the tool: not reaching its steps is the failure
        return Failure('scenario/not-judged:' + slug(skipped), case, f'pinned scenario was skipped: {skipped}\n{j.skip_detail[:1500]}')
    if ev is not None and count:
        if skipped is not None:
            ev.exclude('skipped: ' + skipped)
        else:
            cls = case.get('cls', 'case')
            ev.case(None, nontrivial=j.reprinted_nontrivial, cls=cls, fingerprint=case_fp(case),
                    sample={'files': {k: file_text(v) for k, v in case['files'].items()},
                            'steps': [[strip_private(c) for c in s['cmds']] + [s['mode']] for s in case['steps']]})
            for o in j.outcomes:
                ev.event('outcome:' + o)
    if f is None:
        return None
    root2 = _case_dir()
    j2 = Judge(case, run_subproc, root2, None)
    try:
        f2 = j2.judge()
    except Skip:
        f2 = None
    finally:
        shutil.rmtree(root2, ignore_errors=True)
    if f2 is None:
        if ev is not None:
            ev.inproc_only += 1
        return None
    return f2


def mk(files: T.Dict[str, T.List[str]], steps: T.List[T.Any], **kw: T.Any) -> dict:
    st = []
    for s in steps:
        if isinstance(s, dict) and 'cmds' in s:
            st.append(s)
        elif isinstance(s, list):
            st.append({'mode': 'json', 'cmds': s})
        else:
            st.append({'mode': 'json', 'cmds': [s]})
    case = {'files': files, 'steps': st}
    case.update(kw)
    return case


def tcmd(target: str, op: str, sources: T.Optional[T.List[str]] = None, **kw: T.Any) -> dict:
    c: dict = {'type': 'target', 'target': target, 'operation': op}
    if sources is not None:
        c['sources'] = sources
    c.update(kw)
    return c


# =============================================================================================
# 10. deterministic probes: one minimal case per root cause.  KNOWN_PROBES are the genuine defects of the tree as it is (each
#     fails with exactly its signature until the tool is repaired; the class is kept out of the random campaign meanwhile, see
#     EXCLUDES); FIXED_PROBES are defects this check found that have since been repaired in /repo (they guard against regressions;
#     the same cases are stored as replays/regress/C17-*.json).

def _prog(kwargs_text: str, pre: T.Optional[T.List[str]] = None) -> T.Dict[str, T.List[str]]:
    return {BUILD_FILE: ["project('p', version: '1.0')\n"] + (pre or []) + [f"executable('prog', 'main.c', {kwargs_text})\n", "tail = 1\n"]}


def _add(files: T.Dict[str, T.List[str]], idx: int) -> dict:
    return mk(files, [tcmd('prog', 'src_add', ['new.c'], _allowed=[[BUILD_FILE, idx]])])


ProbeT = T.Tuple[str, str, T.Callable[[], dict]]

KNOWN_PROBES: T.List[ProbeT] = [
    ('effect/extra_files_add:no-longer-evaluates', 'extra_files given as a single string, then extended',
     lambda: mk(_prog("extra_files: 'a.h'"), [tcmd('prog', 'extra_files_add', ['new.h'], _allowed=[[BUILD_FILE, 1]])])),
    ('effect/kwargs-set:backslash-interpreted', 'string value with a backslash given to kwargs set',
     lambda: mk(_prog('install: true'), [{'type': 'kwargs', 'function': 'target', 'id': 'prog', 'operation': 'set',
                                          'kwargs': {'install_dir': 'C:\\tools\\bin'}, '_allowed': [[BUILD_FILE, 1]]}])),
    ('reprint/string-multiline', "triple-quoted string with trailing blanks and an empty line in a re-printed call",
     lambda: _add(_prog("install_rpath: '''a  \n\nb'''"), 1)),
    ('effect/add:foreign-list-extended', 'src_add to a target whose source list mentions a list variable in a ternary condition',
     lambda: mk({BUILD_FILE: ["project('p')\n", "v = [2]\n", "executable('prog', [v != [9] ? 'a.c' : 'a.c', 'b.c'])\n", "tail = 1\n"]},
                [tcmd('prog', 'src_add', ['new.c'], _allowed=[[BUILD_FILE, 2]])])),
]

FIXED_PROBES: T.List[ProbeT] = [
    ('reprint/string-trailing-backslash', 'a string value that ends in a backslash in a re-printed call',
     lambda: _add(_prog("install_dir: 'C:\\\\tools\\\\'"), 1)),
    ('effect/kwargs-set:cli-bool-false', '`kwargs set target prog install false` on the command line',
     lambda: mk(_prog('install: true'), [{'mode': 'cli', 'cmds': [{'type': 'kwargs', 'function': 'target', 'id': 'prog', 'operation': 'set',
                                                                  'kwargs': {'install': 'false'}, '_allowed': [[BUILD_FILE, 1]]}]}])),
    ('reprint/parens-not', 'parens under `not`',
     lambda: _add(_prog('install: not (flag and false)', ['flag = true\n']), 2)),
    ('reprint/parens-uminus', 'parens under unary minus',
     lambda: _add(_prog("c_args: ['-DN=' + (-(n + 2)).to_string()]", ['n = 5\n']), 2)),
    ('reprint/parens-method', 'method call on a parenthesised expression',
     lambda: _add(_prog("c_args: ['-DX=' + (n - 1).to_string()]", ['n = 5\n']), 2)),
    ('reprint/parens-index', 'index of a parenthesised expression',
     lambda: _add(_prog("c_args: [(flag ? ['-Da'] : ['-Db'])[0]]", ['flag = true\n']), 2)),
    ('reprint/parens-compare', 'comparison operand in parentheses',
     lambda: _add(_prog("install: (n in [1, 2]) == flag", ['flag = true\n', 'n = 5\n']), 3)),
    ('reprint/parens-and', '`or` inside `and`',
     lambda: _add(_prog('install: (flag or true) and false', ['flag = true\n']), 2)),
    ('reprint/parens-ternary', 'ternary as the condition operand',
     lambda: _add(_prog("install: (flag ? true : false) ? false : true", ['flag = true\n']), 2)),
    ('reprint/parens-mul-divmod', '`*` whose right operand is a parenthesised `/` or `%`',
     lambda: _add(_prog('d_debug: [n * (7 / 2)]', ['n = 5\n']), 2)),
    ('reprint/string-quote', "escaped quote inside '...'",
     lambda: _add(_prog("c_args: ['-DQ=\"it\\'s\"']"), 1)),
    ('reprint/string-newline-raw', 'escape \\n in a re-printed string becomes a raw line break',
     lambda: _add(_prog("c_args: ['-DA=a\\nb']"), 1)),
    ('analysis-crash/order-compare', 'ordering comparison of known values in a keyword argument',
     lambda: _add(_prog('build_by_default: (n - 1) * 2 > 3', ['n = 5\n']), 2)),
    ('splice/odd-line-separator', 'form feed in a comment above the edited statement',
     lambda: _add({BUILD_FILE: ["project('p')\n", "# page \x0c break\n", "executable('prog', 'main.c', install: true)\n", "tail = 1\n"]}, 2)),
    ('crash/target_rm:IndexError-string-index-out-of-range', 'rm_target of an assigned target that is the last statement of its file',
     lambda: mk({BUILD_FILE: ["project('p')\n", "exe = executable('prog', 'main.c')\n"]}, [tcmd('prog', 'target_rm', _allowed=[[BUILD_FILE, 1]], _vars=['exe'])])),
    ('locality/other-statement-changed', 'src_rm of an inline source and of a source in an inline list of the same call (nested modified nodes)',
     lambda: mk({BUILD_FILE: ["project('p')\n", "executable('prog', 'a.c', ['b.c', 'c.c'])\n", "tail = 1\n"]},
                [tcmd('prog', 'src_rm', ['a.c', 'b.c'], _allowed=[[BUILD_FILE, 1]])])),
]

PROBES: T.List[ProbeT] = KNOWN_PROBES + FIXED_PROBES


# =============================================================================================
# 11. generator

class _Reject(Exception):
    pass


def rebuild(e: list, kids: T.List[list]) -> list:
    """e with its operand positions (same order as child_slots) replaced"""
    k = e[0]
    if k in ('not', 'neg', 'paren'):
        return [k, kids[0]]
    if k == 'bin':
        return ['bin', e[1], kids[0], kids[1]]
    if k == 'tern':
        return ['tern', kids[0], kids[1], kids[2]]
    if k == 'idx':
        return ['idx', kids[0], kids[1]]
    if k == 'meth':
        return ['meth', kids[0], e[2], [[kw, kids[1 + i]] for i, (kw, _) in enumerate(e[3])]]
    if k == 'call':
        return ['call', e[1], [[kw, kids[i]] for i, (kw, _) in enumerate(e[2])]]
    if k == 'arr':
        return ['arr', list(kids)]
    if k == 'dict':
        return ['dict', [[kids[2 * i], kids[2 * i + 1]] for i in range(len(e[1]))]]
    return e


ORDER_OPS = ('<', '<=', '>', '>=')
STRING_EXCLUSIONS = {'string-quote': "'", 'string-newline': '\n'}

TARGET_KW: T.List[T.Tuple[str, str]] = [
    ('install', 'bool'), ('build_by_default', 'bool'), ('gui_app', 'bool'), ('export_dynamic', 'bool'), ('pie', 'bool'),
    ('implib', 'bool'), ('native', 'boollit'),
    ('install_dir', 'str'), ('build_rpath', 'str'), ('install_rpath', 'str'), ('name_suffix', 'str'), ('win_subsystem', 'str'),
    ('c_args', 'strlist'), ('cpp_args', 'strlist'), ('link_args', 'strlist'), ('include_directories', 'strlist'), ('d_debug', 'anylist'),
    ('override_options', 'optlist'), ('vala_args', 'strlist'),
]
DEP_KW: T.List[T.Tuple[str, str]] = [
    ('required', 'bool'), ('static', 'bool'), ('native', 'boollit'), ('version', 'verlist'), ('method', 'method'),
    ('not_found_message', 'str'), ('modules', 'strlist'), ('fallback', 'fallback'), ('language', 'lang'), ('include_type', 'inctype'),
]
OPTION_VALUES = {'buildtype': ['release', 'debug', 'plain', 'minsize'], 'warning_level': ['0', '1', '2', '3'], 'werror': ['true', 'false'],
                 'optimization': ['0', '2', 's'], 'default_library': ['static', 'shared', 'both'], 'unity': ['on', 'off'],
                 'prefix': ['/opt/x', '/usr'], 'strip': ['true', 'false'], 'layout': ['mirror', 'flat'], 'b_lto': ['true', 'false'],
                 'debug': ['true', 'false'], 'unity_size': ['4', '8'], 'backend': ['ninja', 'none'], 'backend_max_links': ['2', '3'],
                 'b_ndebug': ['true', 'false', 'if-release'], 'bindir': ['bin', 'xbin'], 'sbindir': ['sbin', 'xsbin']}
# option names that are a proper prefix - or a proper SUFFIX - of another option name: a default-options command on the short one
# must leave the long one alone
OPTION_SIBLINGS = {'unity': 'unity_size', 'backend': 'backend_max_links', 'debug': 'b_ndebug', 'bindir': 'sbindir'}
DEP_NAMES = ['zlib', 'threads', 'glib-2.0', 'libfoo', 'openssl', 'dl']


class TreeGen:
    def __init__(self, draw: T.Any, excluded: T.FrozenSet[str]):
        from harness import refmesongen as RG
        self.RG = RG
        self.draw = draw
        self.excluded = excluded
        self.g = RG.Gen(draw)
        self.g.max_nodes = 10 ** 9
        self.excl: T.Counter[str] = __import__('collections').Counter()
        self.values: T.Dict[str, T.Any] = {}         # reference values of the variables expressions may use
        self.files: T.Dict[str, T.List[T.Any]] = {BUILD_FILE: []}     # entries: statement AST or raw text
        self.n = 0
        self.reprintable = True      # False while expressions are drawn for statements no command can re-print
        self.tainted: T.Set[str] = set()     # variables a list literal flows into (the tool's data flow: not through method / function calls)

    # -- draws
    def i(self, n: int) -> int:
        return self.g.i(n)

    def chance(self, pct: int) -> bool:
        return self.g.chance(pct)

    def pick(self, seq: T.Sequence[T.Any]) -> T.Any:
        return self.g.pick(seq)

    def fresh(self, pfx: str) -> str:
        self.n += 1
        return f'{pfx}{self.n}'

    # -- reference evaluation of an expression over the literal variables
    def ref(self, e: list, env: T.Optional[T.Dict[str, T.Any]] = None) -> T.Any:
        ev = R.Evaluator({'files': {}})
        ev.env = dict(self.values if env is None else env)
        try:
            v = ev.eval(e)
        except (R.MesonError, R.Undefined, RecursionError) as ex:
            raise _Reject(str(ex))
        if 'int-in-dict' in ev.out.flags:
            raise _Reject('int in dict')
        return v

    def lit(self, e: list) -> list:
        v = self.ref(e)
        try:
            return R.lit_of(v)
        except (ValueError, AssertionError):
            raise _Reject('no literal')

    # -- exclusion of confirmed defect classes (counted)
    def sanitize(self, e: list) -> list:
        kids = [self.sanitize(c) for c, _m, _c in child_slots(e)]
        if kids:
            e = rebuild(e, kids)
        k = e[0]
        if k == 'str':
            return self.sanitize_str(e)
        if k == 'bin' and e[1] in ORDER_OPS and 'order-compare' in self.excluded:
            self.excl['order comparison of known values (analysis-crash/order-compare)'] += 1
            return self.lit(e)
        if k == 'meth' and any(kw is not None for kw, _ in e[3]):
            # the rewriter's analysis hands keyword arguments of methods on known values to the real method as AST nodes and
            # rejects the WHOLE tree ('"to_string" keyword argument "fill" was of type "NumberNode"'): a clean refusal before
            # any edit, so nothing of the property could be judged on such a tree
            self.excl['method call with a keyword argument (to_string(fill:/format:), slice(step:)): the rewriter refuses the whole tree cleanly, no edit to judge'] += 1
            return self.lit(e)
        if k == 'meth' and e[2] == 'contains' and any(isinstance(self.ref(a), list) for kw, a in e[3] if kw is None):
            # same analysis: a list given as the argument is flattened into several arguments ('"array.contains" takes exactly 1 arguments, but got 3')
            self.excl['array.contains() with a list as its argument: the rewriter refuses the whole tree cleanly, no edit to judge'] += 1
            return self.lit(e)
        slots = child_slots(e)
        for idx, (child, minp, cls) in enumerate(slots):
            if cls == 'none' or R.prec_of(unparen(child)) >= minp:
                continue
            cls = site_class(e, idx)
            if ('parens-' + cls) not in self.excluded:
                continue
            self.excl[f'operand that needs parentheses under {cls} (reprint/parens-{cls})'] += 1
            l = self.lit(child)
            if R.prec_of(l) >= minp:
                kids = [c for c, _m, _c in child_slots(e)]
                kids[idx] = l
                e = rebuild(e, kids)
            else:
                return self.lit(e)
        return e

    def sanitize_str(self, e: list) -> list:
        raw, kind = e[1], e[2]
        feats = str_features(raw, kind)
        if kind in ('s', 'fs'):
            bad = [c for c in ('quote', 'newline', 'control', 'unisep', 'backslash', 'unicode', 'fstring')
                   if c in feats and ('string-' + c) in self.excluded]
            if bad:
                try:
                    val = R.decode_escapes(raw)
                except R.Undefined:
                    raise _Reject('escape')
                for c in bad:
                    self.excl[f'string literal with {c} (reprint/string-{c})'] += 1
                    if c == 'quote':
                        val = val.replace("'", 'q')
                    elif c == 'newline':
                        val = val.replace('\n', ' ').replace('\r', ' ')
                    elif c == 'control':
                        val = ''.join(ch if (ord(ch) >= 0x20 or ch == '\n') and ch != '\x7f' else '_' for ch in val)
                    elif c == 'unisep':
                        val = ''.join('_' if ch in ODD_SEPARATORS else ch for ch in val)
                    elif c == 'backslash':
                        val = val.replace('\\', '/')
                    elif c == 'unicode':
                        val = ''.join(ch if ord(ch) < 0x80 else 'u' for ch in val)
                if 'fstring' in bad:
                    kind = 's'
                return ['str', R.escape_single(val), kind]
        else:
            if 'multiline-trailing-ws' in self.excluded and self.reprintable and re.search(r'\s\n', raw):
                self.excl['triple-quoted string with blank space or an empty line before a line break (reprint/string-multiline)'] += 1
                return ['str', re.sub(r'\s+\n', '\n', raw), kind]
        return e

    def expr(self, t: tuple, depth: int, closed: bool = False) -> list:
        """a typed expression the reference evaluates, with excluded classes removed"""
        g = self.g
        saved_env = g.env
        if closed:
            g.env = {}
        try:
            for _ in range(4):
                g.nodes = 0
                e = g.e(t, depth)
                try:
                    self.ref(e, {} if closed else None)
                    e2 = self.sanitize(e)
                    self.ref(e2, {} if closed else None)
                except _Reject:
                    continue
                return e2
        finally:
            g.env = saved_env
        return self.fallback(t)

    # -- expressions built around ONE operand position that is only right with parentheses (the shapes the property names:
    #    "parenthesised logic, arithmetic, method calls on expressions"); operands are literals and the literal variables
    def trap(self, t: tuple) -> T.Optional[list]:
        def par(x: list) -> list:
            return ['paren', x]

        def I() -> list:
            names = [k for k, v in self.values.items() if isinstance(v, int) and not isinstance(v, bool)]
            if names and self.chance(40):
                return ['id', self.pick(names)]
            return ['int', 1 + self.i(9), 'd']

        def B() -> list:
            names = [k for k, v in self.values.items() if isinstance(v, bool)]
            if names and self.chance(50):
                return ['id', self.pick(names)]
            return ['bool', bool(self.i(2))]

        def S() -> list:
            names = [k for k, v in self.values.items() if isinstance(v, str)]
            if names and self.chance(40):
                return ['id', self.pick(names)]
            # (source text between the quotes: escapes for quote, backslash, CR, LF, tab are part of what must survive a re-print)
            return ['str', self.pick(['-DX=', 'foo', 'a b', 'lib', 'x_', "it\\'s", 'C:\\\\dir', 'C:\\\\tools\\\\', 'ends\\\\', 'l1\\r\\nl2', 'cr\\rx', 't\\tb', 'é✓']), 's']

        def int_trap() -> list:
            k = self.i(11)
            if k == 0:
                return ['bin', '-', I(), par(['bin', self.pick(['-', '+']), I(), I()])]
            if k == 1:
                return ['bin', '/', I(), par(['bin', self.pick(['*', '/', '%']), I(), I()])]
            if k == 2:
                return ['bin', '*', I(), par(['bin', self.pick(['/', '%']), I(), I()])]
            if k == 3:
                return ['bin', '%', I(), par(['bin', self.pick(['%', '*', '/']), I(), I()])]
            if k == 4:
                return ['bin', self.pick(['*', '/', '%']), par(['bin', self.pick(['+', '-']), I(), I()]), I()]
            if k == 5:
                return ['bin', self.pick(['*', '/', '%']), I(), par(['bin', self.pick(['+', '-']), I(), I()])]
            if k == 6:
                return ['neg', par(['bin', self.pick(['+', '-']), I(), I()])]
            if k == 7:
                return ['bin', '-', I(), par(['neg', par(['bin', '-', I(), I()])])]
            if k == 8:
                return ['bin', '+', par(['tern', B(), I(), I()]), I()]
            if k == 9:
                return ['idx', par(['tern', B(), ['arr', [I(), I()]], ['arr', [I(), I()]]]), ['int', self.i(2), 'd']]
            return ['idx', ['arr', [I(), I(), I()]], ['bin', '%', par(['bin', '+', I(), I()]), ['int', 3, 'd']]]

        def bool_trap() -> list:
            k = self.i(12)
            if k == 0:
                return ['not', par(['bin', self.pick(['and', 'or']), B(), B()])]
            if k == 1:
                return ['bin', 'and', par(['bin', 'or', B(), B()]), B()]
            if k == 2:
                return ['bin', 'and', B(), par(['bin', 'or', B(), B()])]
            if k == 3:
                return ['not', par(['bin', self.pick(['==', '!=']), I(), I()])]
            if k == 4:
                return ['bin', self.pick(['==', '!=']), par(['bin', 'in', I(), ['arr', [I(), I()]]]), B()]
            if k == 5:
                return ['tern', par(['tern', B(), B(), B()]), B(), B()]
            if k == 6:
                return ['bin', self.pick(['==', '!=']), par(['bin', self.pick(['==', '!=']), B(), B()]), B()]
            if k == 7:
                return ['bin', self.pick(['<', '>', '==', '<=']), int_trap(), I()]
            if k == 8:
                return ['bin', 'or', par(['tern', B(), B(), B()]), B()]
            if k == 9:
                return ['bin', 'and', ['not', par(['bin', 'or', B(), B()])], par(['bin', 'not in', I(), ['arr', [I()]]])]
            if k == 10:
                return ['bin', '==', par(['bin', 'and', B(), B()]), par(['bin', 'or', B(), B()])]
            return ['meth', par(['bin', '+', S(), S()]), self.pick(['startswith', 'contains']), [[None, S()]]]

        def str_trap() -> list:
            k = self.i(8)
            if k == 0:
                return ['bin', '+', S(), ['meth', par(int_trap()), 'to_string', []]]
            if k == 1:
                return ['meth', par(['bin', '+', S(), S()]), self.pick(['to_upper', 'to_lower', 'strip', 'underscorify']), []]
            if k == 2:
                return ['bin', '+', par(['tern', B(), S(), S()]), S()]
            if k == 3:
                return ['idx', par(['tern', B(), ['arr', [S()]], ['arr', [S()]]]), ['int', 0, 'd']]
            if k == 4:
                return ['idx', ['arr', [S(), S()]], ['bin', '%', par(['bin', '+', I(), I()]), ['int', 2, 'd']]]
            if k == 5:
                return ['bin', '+', S(), ['meth', par(['neg', par(['bin', '+', I(), I()])]), 'to_string', []]]
            if k == 6:
                return ['tern', par(['bin', self.pick(['and', 'or']), B(), par(['bin', '==', I(), I()])]), S(), S()]
            return ['meth', ['str', '@0@-@1@', 's'], 'format', [[None, par(['bin', '-', I(), par(['bin', '-', I(), I()])])], [None, par(['bin', '+', S(), S()])]]]

        make = {'int': int_trap, 'bool': bool_trap, 'str': str_trap}.get(t[0])
        if make is None:
            return None
        for _ in range(4):
            e = make()
            try:
                self.ref(e)
                e2 = self.sanitize(e)
                self.ref(e2)
            except _Reject:
                continue
            return e2
        return None

    def fallback(self, t: tuple) -> list:
        if t[0] == 'bool':
            return ['bool', bool(self.i(2))]
        if t[0] == 'int':
            return ['int', self.i(9), 'd']
        if t[0] == 'str':
            return ['str', self.pick(['foo', 'bar', 'x y', '-DZ=1']), 's']
        if t[0] == 'arr':
            return ['arr', [self.fallback(t[1] or ('str',))]]
        return ['dict', []]

    # -- tree
    def add(self, rel: str, entry: T.Any) -> int:
        self.files.setdefault(rel, []).append(entry)
        return len(self.files[rel]) - 1

    def list_flows(self, e: T.Any, inline: bool = True) -> bool:
        """does a list literal reach the value of e in the tool's data-flow graph?  (every sub-expression counts - condition of a
        ternary, operand of a comparison, index - except what lies under a method call or a function call other than files() /
        get_variable(), mesonbuild/ast/interpreter.py is_ignored_edge).  inline=False: only through variables."""
        if not isinstance(e, list) or not e:
            return False
        k = e[0]
        if k == 'meth' or (k == 'call' and e[1] not in ('files', 'get_variable')):
            return False
        if k == 'arr' and inline:
            return True
        if k == 'id':
            return e[1] in self.tainted
        return any(self.list_flows(c, inline) for c, _m, _c in child_slots(e))

    def literal_vars(self) -> None:
        RG = self.RG
        g = self.g
        n = 2 + self.i(4)
        for _ in range(n):
            name = g.fresh()
            k = self.i(7)
            if k == 0:
                v: T.Any = self.draw(__import__('hypothesis').strategies.integers(-9, 30))
                t = RG.INT
            elif k == 1:
                v = bool(self.i(2))
                t = RG.BOOL
            elif k == 2:
                v = self.pick(['foo', 'lib', 'x86_64', 'a b', '1.2.3', '/usr/share', 'Hello'])
                t = RG.STR
            elif k == 3:
                v = [self.i(9) for _ in range(1 + self.i(3))]
                t = RG.ARR(RG.INT, len(v))
            elif k == 4:
                v = [self.pick(['-DA', '-DB=1', 'x', 'y z', 'inc']) for _ in range(1 + self.i(3))]
                t = RG.ARR(RG.STR, len(v))
            elif k == 5:
                keys = g.distinct_keys(1 + self.i(2))
                v = {kk: self.i(9) for kk in keys}
                t = RG.DICT(RG.INT, tuple(keys))
            else:
                keys = g.distinct_keys(1 + self.i(2))
                v = {kk: self.pick(['c99', 'on', 'v']) for kk in keys}
                t = RG.DICT(RG.STR, tuple(keys))
            self.values[name] = v
            g.env[name] = t
            self.add(BUILD_FILE, ['assign', name, R.lit_of(v)])
            if self.list_flows(R.lit_of(v)):
                self.tainted.add(name)
        for _ in range(self.i(3)):
            t = self.pick([RG.INT, RG.BOOL, RG.STR])
            self.reprintable = False          # an assignment of a scalar is never re-printed
            e = self.expr(t, 2)
            self.reprintable = True
            name = g.fresh()
            try:
                self.values[name] = self.ref(e)
            except _Reject:
                continue
            g.env[name] = t
            self.add(BUILD_FILE, ['assign', name, e])
            if self.list_flows(e):
                self.tainted.add(name)

    def kw_value(self, typ: str) -> list:
        RG = self.RG
        lit = self.chance(30)
        d = 0 if lit else 1 + self.i(3)

        def ex(t: tuple, depth: int) -> list:
            if not lit and self.chance(45):
                e = self.trap(t)
                if e is not None:
                    return e
            return self.expr(t, depth)

        if typ == 'bool':
            return ex(RG.BOOL, d)
        if typ == 'boollit':
            return ['bool', False]
        if typ == 'str':
            return ex(RG.STR, d)
        if typ == 'strlist':
            if self.chance(15):
                return ex(RG.STR, d)
            if self.chance(20):
                return self.expr(RG.ARR(RG.STR, None), d)
            return ['arr', [ex(RG.STR, max(d - 1, 0)) if not self.chance(40) else self.fallback(RG.STR) for _ in range(1 + self.i(3))]]
        if typ == 'anylist':
            return ['arr', [ex(self.pick([RG.INT, RG.STR]), d) for _ in range(1 + self.i(2))]]
        if typ == 'optlist':
            if self.chance(40):
                return ['dict', [[['str', 'c_std', 's'] if not self.chance(25) else ['bin', '+', ['str', 'c_', 's'], ['str', 'std', 's']],
                                  self.pick([['str', 'c99', 's'], ['bin', '+', ['str', 'c', 's'], ['str', '11', 's']]])]]]
            try:
                return ['arr', [['str', 'warning_level=' + self.pick(['1', '2', '3']), 's'] if self.chance(60) else
                                self.sanitize(['bin', '+', ['str', 'warning_level=', 's'], ['meth', ['paren', ['bin', '+', ['int', 1, 'd'], ['int', self.i(3), 'd']]], 'to_string', []]])]]
            except _Reject:
                return ['arr', [['str', 'warning_level=1', 's']]]
        if typ == 'verlist':
            v = [['str', self.pick(['>=', '<', '!=', '==']) + self.pick(['1.0', '2.3.4', '0.9']), 's'] for _ in range(1 + self.i(2))]
            return v[0] if len(v) == 1 and self.chance(50) else ['arr', v]
        if typ == 'method':
            return ['str', self.pick(['auto', 'pkg-config', 'cmake', 'system']), 's']
        if typ == 'fallback':
            return ['arr', [['str', 'subp', 's'], ['str', 'subp_dep', 's']]]
        if typ == 'lang':
            return ['str', self.pick(['c', 'cpp']), 's']
        if typ == 'inctype':
            return ['str', self.pick(['preserve', 'system', 'non-system']), 's']
        raise HarnessError(typ)

    def project_stmt(self) -> list:
        RG = self.RG
        args: T.List[list] = [[None, ['str', self.pick(['p', 'my project', 'rewritetest']), 's']]]
        kws: T.List[list] = []
        if self.chance(75):
            kws.append(['version', ['str', self.pick(['1.0', '0.0.1', '2.3.4-rc1']), 's'] if self.chance(65) else self.expr(RG.STR, 2, closed=True)])
        if self.chance(55):
            if self.chance(35):
                kws.append(['license', ['str', self.pick(['MIT', 'GPL-2.0-or-later']), 's']])
            else:
                els = [['str', x, 's'] for x in self.pick([['MIT'], ['GPL', 'MIT'], ['Apache-2.0', 'BSD', 'MIT']])]
                if self.chance(25):
                    els.append(self.expr(RG.STR, 2, closed=True))
                kws.append(['license', ['arr', els]])
        if self.chance(70):
            keys = []
            for _ in range(1 + self.i(3)):
                k = self.pick(sorted(OPTION_VALUES))
                if k not in keys:
                    keys.append(k)
                sib = OPTION_SIBLINGS.get(k)
                if sib and sib not in keys and self.chance(60):
                    keys.insert(self.i(len(keys) + 1), sib)
            form = self.i(10)
            if form < 6:
                els = [['str', f'{k}={self.pick(OPTION_VALUES[k])}', 's'] for k in keys]
                kws.append(['default_options', ['arr', els]])
            elif form < 7:
                kws.append(['default_options', ['str', f'{keys[0]}={self.pick(OPTION_VALUES[keys[0]])}', 's']])
            elif form < 8:
                kws.append(['default_options', ['dict', [[['str', k, 's'], ['str', self.pick(OPTION_VALUES[k]), 's']] for k in keys]]])
            else:
                els = []
                for k in keys:
                    v = self.pick(OPTION_VALUES[k])
                    cut = self.i(len(k) + 1)
                    els.append(['bin', '+', ['str', k[:cut], 's'], ['str', k[cut:] + '=' + v, 's']])
                kws.append(['default_options', ['arr', els]])
        if self.chance(30):
            kws.append(['meson_version', ['str', self.pick(['>=0.60.0', '>= 1.0.0']), 's']])
        if self.chance(12):
            kws.append(['license_files', ['arr', [['str', 'COPYING', 's']]]])
        order = list(range(len(kws)))
        kws = [kws[j] for j in self.draw(__import__('hypothesis').strategies.permutations(order))]
        self.pmeta = {k: self.is_literal_kw(v) for k, v in kws}
        self.popt_nonliteral: T.List[str] = []
        for k, v in kws:
            if k == 'default_options' and v[0] == 'arr':
                for el in v[1]:
                    if el[0] != 'str':
                        try:
                            self.popt_nonliteral.append(opt_split(self.ref(el, {}))[0])
                        except _Reject:
                            pass
        return ['expr', ['call', 'project', args + kws]]

    # -- sources -------------------------------------------------------------------------------
    def strs(self, names: T.List[str]) -> T.List[list]:
        return [['str', n, 's'] for n in names]

    def source_piece(self, rel: str, tdir: str, names: T.List[str], allow_shared: bool) -> dict:
        """statements + an argument expression that contributes the files `names` (strings as written)"""
        shape = self.g.weighted([(10, 'inline'), (12, 'list'), (5, 'nested'), (14, 'var'), (9, 'var_files'), (8, 'var_plus'),
                                 (4, 'alias'), (4, 'wrap'), (4, 'getvar'), (5, 'concat'), (4, 'exprelem'), (3, 'files_inline'), (5, 'tern_list'),
                                 (8 if allow_shared else 0, 'shared_new'), (10 if allow_shared and self.shared else 0, 'shared_use')])
        out: dict = {'shape': shape, 'stmts': [], 'args': [], 'vars': [], 'files': []}       # files: (string, resolve dir, literal, shared)
        lits = [(n, tdir, True, False) for n in names]

        def newvar(value: list) -> str:
            v = self.fresh('src')
            out['stmts'].append(self.add(rel, ['assign', v, value]))
            out['vars'].append(v)
            return v

        here = os.path.dirname(rel)
        if shape == 'inline':
            out['args'] = self.strs(names)
            out['files'] = lits
        elif shape == 'list':
            out['args'] = [['arr', self.strs(names)]]
            out['files'] = lits
        elif shape == 'nested':
            k = self.i(len(names))
            out['args'] = [['arr', self.strs(names[:k]) + [['arr', self.strs(names[k:])]]]]
            out['files'] = lits
        elif shape == 'var':
            out['args'] = [['id', newvar(['arr', self.strs(names)])]]
            out['files'] = lits
        elif shape == 'var_files':
            inner = self.strs(names) if self.chance(50) else [['arr', self.strs(names)]]
            out['args'] = [['id', newvar(['call', 'files', [[None, x] for x in inner]])]]
            out['files'] = [(n, here, True, False) for n in names]
        elif shape == 'files_inline':
            out['args'] = [['call', 'files', [[None, x] for x in self.strs(names)]]]
            out['files'] = [(n, here, True, False) for n in names]
        elif shape == 'var_plus':
            v = newvar(['arr', self.strs(names[:1])])
            rest = names[1:]
            bare = False
            if rest:
                add: list = ['arr', self.strs(rest)] if len(rest) > 1 or self.chance(60) else self.strs(rest)[0]
                bare = add[0] == 'str'
                out['stmts'].append(self.add(rel, ['plusassign', v, add]))
            out['args'] = [['id', v]]
            # `src += 'x.c'` (a bare string, no list): the documentation and the fixtures only show `+= [...]`; a removal may be refused
            out['files'] = lits[:1] + [(n, tdir, not bare, False) for n in rest]
        elif shape == 'alias':
            v = newvar(['arr', self.strs(names)])
            w = newvar(['id', v])
            out['args'] = [['id', w]]
            out['files'] = lits
        elif shape == 'wrap':
            out['args'] = [['arr', [['id', newvar(['arr', self.strs(names)])]]]]
            out['files'] = lits
        elif shape == 'getvar':
            v = newvar(['arr', self.strs(names)])
            out['args'] = [['call', 'get_variable', [[None, ['str', v, 's']]]]]
            out['files'] = lits
        elif shape == 'concat':
            k = max(1, self.i(len(names)))
            a = newvar(['arr', self.strs(names[:k])])
            if self.chance(50):
                out['args'] = [['bin', '+', ['id', a], ['arr', self.strs(names[k:])]]]
            else:
                b = newvar(['arr', self.strs(names[k:])])
                out['args'] = [['bin', '+', ['id', a], ['id', b]]]
            out['files'] = lits
        elif shape == 'tern_list':
            # the whole argument is a ternary of two lists (both branches hold the same files, so that the value does not depend on
            # the condition): whatever an edit appends or wraps around it has to apply to the ternary as a whole
            cond = self.pick([['bool', True], ['bool', False], ['bin', '<', ['int', 1, 'd'], ['int', 2, 'd']], ['not', ['bool', True]]])
            k = self.i(len(names) + 1)
            out['args'] = [['tern', cond, ['arr', self.strs(names)], ['arr', self.strs(names[k:] + names[:k])]]]
            out['files'] = [(n, tdir, False, False) for n in names]
        elif shape == 'exprelem':
            n0 = names[0]
            cut = 1 + self.i(max(1, len(n0) - 1))
            form = self.i(3)
            if form == 0:
                el: list = ['bin', '+', ['str', n0[:cut], 's'], ['str', n0[cut:], 's']]
            elif form == 1:
                cond = self.expr(self.RG.BOOL, 1)
                el = ['tern', cond, ['str', n0, 's'], ['str', n0, 's']]
                # a list VARIABLE mentioned in the condition lies earlier in the file than any source list: known finding
                # effect/add:foreign-list-extended (an inline list in the condition lies behind the '[' of the source list: harmless)
                out['foreign_cond'] = self.list_flows(cond, inline=False)
            else:
                el = ['meth', ['str', '@0@' + n0[cut:], 's'], 'format', [[None, ['str', n0[:cut], 's']]]]
            out['args'] = [['arr', [el] + self.strs(names[1:])]]
            out['files'] = [(n0, tdir, False, False)] + lits[1:]
        elif shape == 'shared_new':
            kind = 'files' if self.chance(40) else 'list'
            v = self.fresh('shared')
            val: list = ['arr', self.strs(names)] if kind == 'list' else ['call', 'files', [[None, ['arr', self.strs(names)]]]]
            idx = self.add(rel, ['assign', v, val])
            sh = {'var': v, 'kind': kind, 'dir': here, 'names': list(names), 'loc': [rel, idx]}
            self.shared.append(sh)
            out['stmts'].append(idx)
            out['vars'].append(v)
            out['args'] = [['id', v]]
            out['files'] = [(n, tdir if kind == 'list' else here, True, True) for n in names]
            out['shared'] = sh
        else:
            sh = self.pick(self.shared)
            out['args'] = [['id', sh['var']]] if self.chance(70) else [['bin', '+', ['id', sh['var']], ['arr', []]]]
            out['vars'].append(sh['var'])
            out['files'] = [(n, tdir if sh['kind'] == 'list' else sh['dir'], True, True) for n in sh['names']]
            out['shared'] = sh
            out['foreign'] = [sh['loc']]
        return out

    def target(self, rel: str, name: str) -> None:
        RG = self.RG
        tdir = os.path.dirname(rel)
        fn = self.g.weighted([(10, 'executable'), (4, 'static_library'), (3, 'shared_library'), (3, 'library'), (2, 'both_libraries'), (1, 'shared_module')])
        nfiles = 1 + self.i(4)
        names = [f'{name}_{k}.c' if not self.chance(12) else f'src/{name}_{k}.c' for k in range(nfiles)]
        npieces = 1 + self.i(min(3, nfiles))
        cuts = sorted(self.draw(__import__('hypothesis').strategies.lists(
            __import__('hypothesis').strategies.integers(1, nfiles - 1), min_size=npieces - 1, max_size=npieces - 1, unique=True))) if nfiles > 1 and npieces > 1 else []
        groups = [names[a:b] for a, b in zip([0] + cuts, cuts + [nfiles])]
        pieces = [self.source_piece(rel, tdir, grp, True) for grp in groups if grp]
        pos: T.List[list] = []
        kw_sources: T.Optional[list] = None
        for pi, p in enumerate(pieces):
            if kw_sources is None and pi == len(pieces) - 1 and self.chance(12):
                kw_sources = p['args'][0] if len(p['args']) == 1 else ['arr', p['args']]
                if kw_sources[0] == 'str':
                    # `sources: 'x.c'`: a string that is not an element of any list or call; a removal may be refused (same as extra_files: 'a.h')
                    p['files'] = [(n, d, False, sh) for n, d, _lit, sh in p['files']]
            else:
                pos.extend(p['args'])
        # extra_files
        extra: T.Optional[dict] = None
        extra_arg: T.Optional[list] = None
        if self.chance(45):
            if self.chance(15):
                extra_arg = ['arr', []]
                extra = {'stmts': [], 'vars': [], 'files': []}
            else:
                hn = [f'{name}_{k}.h' for k in range(1 + self.i(2))]
                ep = self.source_piece(rel, tdir, hn, False)
                extra = ep
                extra_arg = ep['args'][0] if len(ep['args']) == 1 else ['arr', ep['args']]
        # other keyword arguments
        kws: T.List[list] = []
        used: T.Set[str] = set()
        for _ in range(self.g.weighted([(2, 0), (4, 1), (4, 2), (3, 3), (2, 4)])):
            kw, typ = self.pick(TARGET_KW)
            if kw in used:
                continue
            used.add(kw)
            kws.append([kw, self.kw_value(typ)])
        if self.depvars and self.chance(30):
            ids = [['id', v] for v in self.depvars[:1 + self.i(len(self.depvars))]]
            kws.append(['dependencies', ids[0] if len(ids) == 1 and self.chance(50) else ['arr', ids]])
        if self.libvars and self.chance(20):
            kws.append(['link_with', ['id', self.pick(self.libvars)] if self.chance(50) else ['arr', [['id', self.pick(self.libvars)]]]])
        if kw_sources is not None:
            kws.append(['sources', kw_sources])
        if extra_arg is not None:
            kws.append(['extra_files', extra_arg])
        order = self.draw(__import__('hypothesis').strategies.permutations(list(range(len(kws)))))
        kws = [kws[j] for j in order]
        nameexpr: list = ['str', name, 's']
        if self.chance(8):
            cut = 1 + self.i(max(1, len(name) - 1))
            nameexpr = ['bin', '+', ['str', name[:cut], 's'], ['str', name[cut:], 's']]
        call = ['call', fn, [[None, nameexpr]] + [[None, a] for a in pos] + kws]
        var = None
        if self.chance(55):
            var = self.fresh('tgt')
            idx = self.add(rel, ['assign', var, call])
            if fn != 'executable':
                self.libvars.append(var)
        else:
            idx = self.add(rel, ['expr', call])
        self.tmeta[name] = {
            'name': name, 'var': var, 'fn': fn, 'dir': tdir, 'loc': [rel, idx], 'nt': nontrivial_expr(call),
            'src_stmts': [[rel, i] for p in pieces for i in p['stmts']] + [l for p in pieces for l in p.get('foreign', [])],
            'src_vars': [v for p in pieces for v in p['vars']],
            'src_files': {os.path.normpath(os.path.join(d, s)): {'literal': lit, 'shared': sh} for p in pieces for s, d, lit, sh in p['files']},
            'extra_stmts': ([[rel, i] for i in extra['stmts']] if extra else []),
            'extra_vars': (list(extra['vars']) if extra else []),
            'extra_files': ({os.path.normpath(os.path.join(d, s)): {'literal': lit, 'shared': sh} for s, d, lit, sh in extra['files']} if extra else {}),
            'kwlit': {k: self.is_literal_kw(v) for k, v in kws},
            'src_foreign': any(p.get('foreign_cond') for p in pieces), 'extra_foreign': bool(extra and extra.get('foreign_cond')),
            # the whole sources / extra_files argument is an operator expression: an edit that wraps or extends it must apply to all of it
            'src_opexpr': any(p['shape'] in ('tern_list', 'concat') for p in pieces), 'extra_opexpr': bool(extra and extra.get('shape') in ('tern_list', 'concat')),
        }
        # targets whose NAME is a loop variable, fed by the same shared list: static analysis cannot name them, the edit of another
        # target must still leave their source sets alone
        sh = next((p['shared'] for p in pieces if p.get('shared')), None)
        if sh is not None and sh['kind'] == 'list' and self.chance(35):
            lv = self.fresh('lp')
            nms = [f'{name}_{lv}{k}' for k in range(2)]
            self.add(rel, ['foreach', [lv], ['arr', self.strs(nms)],
                           [['expr', ['call', 'executable', [[None, ['id', lv]], [None, ['id', sh['var']]]]]]]])

    @staticmethod
    def is_literal_kw(v: list) -> str:
        """'all' literal scalars / list of literal scalars, 'list' = array literal with non-literal elements, 'no'"""
        def scalar(x: list) -> bool:
            return x[0] in ('str', 'bool', 'id') and (x[0] != 'str' or x[2] == 's')
        if v[0] == 'id':
            return 'id'       # a bare identifier: editable as an id-list value, "too complex" as a string-list value
        els = v[1] if v[0] == 'arr' else [v]
        if all(scalar(x) for x in els):
            # 'ids': identifiers among the elements (the tool compares element TEXT: a string value that an identifier contributes
            # cannot be removed by value)
            return 'ids' if any(x[0] == 'id' for x in els) else 'all'
        return 'list' if v[0] == 'arr' else 'no'

    def dependency(self) -> None:
        name = self.pick([n for n in DEP_NAMES if n not in self.depnames] or ['extra' + str(self.n)])
        self.depnames.append(name)
        kws: T.List[list] = []
        used: T.Set[str] = set()
        for _ in range(self.i(4)):
            kw, typ = self.pick(DEP_KW)
            if kw in used:
                continue
            used.add(kw)
            kws.append([kw, self.kw_value(typ)])
        var = self.fresh('dep')
        idx = self.add(BUILD_FILE, ['assign', var, ['call', 'dependency', [[None, ['str', name, 's']]] + kws]])
        self.depvars.append(var)
        self.dmeta[name] = {'name': name, 'var': var, 'loc': [BUILD_FILE, idx], 'kwlit': {k: self.is_literal_kw(v) for k, v in kws}}

    def neutral(self, rel: str) -> None:
        self.reprintable = False              # statements outside every data flow: must stay byte-identical
        try:
            self._neutral(rel)
        finally:
            self.reprintable = True

    def _neutral(self, rel: str) -> None:
        RG = self.RG
        k = self.i(7)
        if k == 0:
            pool = ['a comment', 'TODO: tidy up', "it's here", 'ünïcode ✓']
            if 'odd-line-separator' not in self.excluded:
                pool += ['page \x0c break', 'sep \u2028 here', 'next \x85 line', 'vt \x0b x', 'fs \x1c x']
            else:
                self.excl['form feed / VT / FS / NEL / U+2028 in a comment or triple-quoted string (splice/odd-line-separator)'] += 1
            self.add(rel, '# ' + self.pick(pool) + '\n')
        elif k == 1:
            self.add(rel, '\n')
        elif k == 2:
            self.add(rel, ['expr', ['call', 'message', [[None, self.expr(self.pick([RG.STR, RG.INT, RG.BOOL]), 2)]]]])
        elif k == 3:
            t = self.pick([RG.INT, RG.BOOL, RG.STR])
            e = self.expr(t, 2)
            self.add(rel, ['assign', self.fresh('aux'), e])
        elif k == 4:
            self.add(rel, ['if', [[self.expr(RG.BOOL, 2), [['assign', self.fresh('aux'), self.expr(RG.INT, 1)]]]],
                           [['expr', ['call', 'message', [[None, ['str', 'else', 's']]]]]] if self.chance(40) else None])
        elif k == 5:
            pool = ['line1\nline2', "it's", 'tab\there', 'two\n\nblank']
            if 'odd-line-separator' not in self.excluded:
                pool += ['ff \x0c', 'ls \u2028 x']
            self.add(rel, ['assign', self.fresh('aux'), ['str', self.pick(pool), 'm']])
        else:
            self.add(rel, ['foreach', ['it'], ['arr', [['int', 1, 'd'], ['int', 2, 'd']]], [['expr', ['call', 'message', [[None, ['id', 'it']]]]]]])

    def build_tree(self) -> None:
        self.shared: T.List[dict] = []
        self.tmeta: T.Dict[str, dict] = {}
        self.dmeta: T.Dict[str, dict] = {}
        self.depvars: T.List[str] = []
        self.depnames: T.List[str] = []
        self.libvars: T.List[str] = []
        self.add(BUILD_FILE, self.project_stmt())
        self.literal_vars()
        for _ in range(self.g.weighted([(5, 0), (4, 1), (2, 2)])):
            self.dependency()
        subdirs = self.pick([[], [], ['sub1'], ['libs'], ['sub1', 'libs']])
        segs = ['']
        for d in subdirs:
            segs += [d, '']
        nt = self.g.weighted([(5, 1), (5, 2), (4, 3), (2, 4), (1, 5), (1, 6)])
        tnames = ['prog', 'app2', 'mylib', 'tool-x', 'core_3', 'zz'][:nt]
        place = [self.i(len(segs)) for _ in tnames]
        for si, d in enumerate(segs):
            rel = os.path.join(d, BUILD_FILE) if d else BUILD_FILE
            if d:
                self.add(BUILD_FILE, ['expr', ['call', 'subdir', [[None, ['str', d, 's']]]]])
                self.files.setdefault(rel, [])
                if self.chance(50) or not any(p == si for p in place):
                    self.neutral(rel)
            for tn, p in zip(tnames, place):
                if p != si:
                    continue
                if self.chance(35):
                    self.neutral(rel)
                self.target(rel, tn)
            if self.chance(30):
                self.neutral(rel)

    def render(self) -> T.Dict[str, T.List[str]]:
        st = __import__('hypothesis').strategies
        out: T.Dict[str, T.List[str]] = {}
        for rel, entries in self.files.items():
            texts = []
            for e in entries:
                if isinstance(e, str):
                    texts.append(e)
                    continue
                style = self.draw(st.lists(st.integers(0, 11), max_size=40)) if self.chance(30) else []
                texts.append(R.Printer(style).stmt(e, ''))
            # statement texts of one file must be distinct for the alignment to be unambiguous
            seen: T.Set[str] = set()
            for i, t in enumerate(texts):
                while t in seen and t.strip():
                    t = t.rstrip('\n') + ' #' + str(i) + '\n'
                seen.add(t)
                texts[i] = t
            out[rel] = texts
        return out

    # -- commands ------------------------------------------------------------------------------
    def gen_steps(self, model: Model) -> T.Tuple[T.List[dict], T.Optional[str], str]:
        snap = copy.deepcopy(model.snapshot())
        env = model.env
        alive = [t['name'] for t in snap['targets'] if not t.get('computed')]      # targets a command can address
        original = list(alive)
        added: T.List[str] = []
        cmds: T.List[dict] = []
        law: T.Optional[str] = None
        nfiles = {rel: len(v) for rel, v in self.files.items()}
        # known finding effect/extra_files_add:no-longer-evaluates: the class is decided on the reference VALUE of the argument
        for t in snap['targets']:
            if t['name'] in self.tmeta:
                self.tmeta[t['name']]['extra_scalar'] = bool(t.get('extra_scalar'))

        def tmeta(name: str) -> dict:
            return self.tmeta[name]

        def addr(name: str) -> T.Tuple[str, dict]:
            m = tmeta(name)
            if m.get('var') and self.chance(25):
                return m['var'], {'_name': name}
            return name, {}

        def cur(name: str) -> dict:
            return next(t for t in snap['targets'] if t['name'] == name)

        def foreign(name: str, field: str) -> bool:
            if self.tmeta[name].get(field + '_foreign') and 'add-foreign-list' in self.excluded:
                self.excl['src_add / extra_files_add on a target whose source expression mentions a list variable in a ternary condition '
                          '(effect/add:foreign-list-extended)'] += 1
                return True
            return False

        def subject() -> str:
            # the property is about the OTHER arguments of the re-printed statement: prefer targets whose call carries a non-trivial one
            hot = [n for n in alive if self.tmeta[n].get('nt')]
            return self.pick(hot) if hot and self.chance(60) else self.pick(alive)

        def src_cmd(name: str, op: str, files: T.List[str]) -> dict:
            m = tmeta(name)
            extra = op.startswith('extra')
            a, priv = addr(name)
            c = tcmd(a, op, files, **priv)
            c['_allowed'] = [m['loc']] + (m['extra_stmts'] if extra else m['src_stmts'])
            c['_vars'] = list(m['extra_vars'] if extra else m['src_vars']) + ([m['var']] if m.get('var') else [])
            if op.endswith('_rm'):
                table = m['extra_files'] if extra else m['src_files']
                may = [f for f in files if not (table.get(f, {}).get('literal') and not table.get(f, {}).get('shared')) and f not in m.get('fresh', set())]
                if extra and m.get('extra_scalar'):
                    may = list(files)
                if may:
                    c['_may'] = {f'{name}|{"extra" if extra else "sources"}': may}
                    c['_expect'] = 'may'
            return c

        def new_files(name: str, ext: str) -> T.List[str]:
            k = 1 + self.i(2)
            base = self.pick(['', '', 'sub1/', 'gen/', tmeta(name)['dir'] + '/' if tmeta(name)['dir'] else ''])
            return [os.path.normpath(f'{base}new{self.fresh("")}{ext}') for _ in range(k)]

        def push(c: dict) -> None:
            nonlocal snap
            if c.get('_expect') != 'error':
                snap2, _ = apply_cmd(snap, c, env, False)
                snap = snap2
            cmds.append(c)

        def one() -> None:
            nonlocal law
            kinds = [(24, 'src_add'), (14, 'src_rm'), (8, 'extra_add'), (6, 'extra_rm'), (5 if not added else 0, 'target_add'), (5, 'target_rm'),
                     (14, 'kw_target'), (9, 'kw_project'), (6 if snap['deps'] else 0, 'kw_dep'), (9, 'defopt'), (2, 'info'), (3, 'error')]
            if not alive:
                kinds = [(w, k) for w, k in kinds if k in ('target_add', 'kw_project', 'defopt', 'error', 'kw_dep')]
            k = self.g.weighted(kinds)
            opx = [(n, f) for n in alive for f in ('src', 'extra') if self.tmeta[n].get(f + '_opexpr')]
            if opx and not cmds and self.chance(50):
                # a target whose whole source / extra_files argument is `c ? [..] : [..]` or `a + [..]`: extend exactly that one
                name, f = self.pick(opx)
                if not foreign(name, f):
                    push(src_cmd(name, 'src_add' if f == 'src' else 'extra_files_add', new_files(name, '.c' if f == 'src' else '.h')))
                    self.tmeta[name].setdefault('fresh', set()).update(cmds[-1]['sources'])
                    return
            if k == 'src_add':
                name = subject()
                if foreign(name, 'src'):
                    return
                push(src_cmd(name, 'src_add', new_files(name, '.c')))
                self.tmeta[name].setdefault('fresh', set()).update(cmds[-1]['sources'])
            elif k == 'src_rm':
                name = subject()
                have = cur(name)['sources']
                if not have:
                    return
                n = 1 + self.i(min(2, len(have)))
                files = [have[j] for j in sorted(set(self.i(len(have)) for _ in range(n)))]
                if any(f.startswith('<') for f in files):
                    return
                push(src_cmd(name, 'src_rm', files))
            elif k == 'extra_add':
                name = subject()
                if tmeta(name).get('extra_scalar') and 'extra-scalar' in self.excluded:
                    self.excl['extra_files_add on a target whose extra_files is a single string (effect/extra_files_add:no-longer-evaluates)'] += 1
                    return
                if foreign(name, 'extra'):
                    return
                push(src_cmd(name, 'extra_files_add', new_files(name, '.h')))
                self.tmeta[name].setdefault('fresh', set()).update(cmds[-1]['sources'])
            elif k == 'extra_rm':
                name = subject()
                have = cur(name)['extra']
                if self.chance(30) and cur(name)['sources']:
                    # a file that is a SOURCE of the target, not one of its extra files: nothing to remove there, and the sources stay
                    f = self.pick(cur(name)['sources'])
                    if f not in have and not f.startswith('<'):
                        push(src_cmd(name, 'extra_files_rm', [f]))
                        return
                if not have:
                    return
                push(src_cmd(name, 'extra_files_rm', [self.pick(have)]))
            elif k == 'target_add':
                name = self.pick(['newexe', 'new-lib', 'added_1'])
                sub = self.pick([''] + sorted({os.path.dirname(r) for r in self.files if os.path.dirname(r)}))
                rel = os.path.join(sub, BUILD_FILE) if sub else BUILD_FILE
                typ = self.pick(['executable', 'executable', 'static_library', 'shared_library', 'library', 'both_libraries', 'shared_module'])
                srcs = [f'n{j}.c' for j in range(self.i(3))]
                c = tcmd(name, 'target_add', srcs, subdir=sub, target_type=typ, _append=rel)
                push(c)
                added.append(name)
                alive.append(name)
                idvar = re.sub(r'[- ]', '_', name)
                self.tmeta[name] = {'name': name, 'var': None, 'fn': typ, 'dir': sub, 'loc': [rel, nfiles[rel]], 'src_stmts': [], 'src_vars': [idvar + '_sources', idvar + '_exe', '_lib'],
                                    'src_files': {os.path.normpath(os.path.join(sub, s)): {'literal': True, 'shared': False} for s in srcs},
                                    'extra_stmts': [], 'extra_vars': [idvar + '_sources', idvar + '_exe', '_lib'], 'extra_files': {}, 'kwlit': {}, 'appended': True}
            elif k == 'target_rm':
                name = subject()
                m = tmeta(name)
                if m.get('var') and self.var_used_elsewhere(m['var'], m['loc']):
                    self.excl['target_rm of a target whose variable is used by a later statement (would leave a dangling name)'] += 1
                    return
                if m.get('var') and 'rm-last-assignment' in self.excluded and self.is_last(m['loc']):
                    self.excl['target_rm of an assigned target that ends its file (crash/target_rm:IndexError)'] += 1
                    return
                a, priv = addr(name)
                c = tcmd(a, 'target_rm', **priv)
                c['_allowed'] = [m['loc']]
                c['_vars'] = ([m['var']] if m.get('var') else []) + (m['src_vars'] if m.get('appended') else [])
                push(c)
                alive.remove(name)
            elif k == 'info':
                if alive:
                    push(tcmd(self.pick(alive), 'info'))
            elif k in ('kw_target', 'kw_project', 'kw_dep'):
                fn = {'kw_target': 'target', 'kw_project': 'project', 'kw_dep': 'dependency'}[k]
                if fn == 'target':
                    name = subject()
                    m = tmeta(name)
                    ident, priv = addr(name)
                    args = cur(name)['args']
                    kwlit = m['kwlit']
                    loc = m['loc']
                    vs = [m['var']] if m.get('var') else []
                elif fn == 'project':
                    ident, priv, args, kwlit, loc, vs = self.pick(['/', '/', '//']), {}, snap['project'], self.pmeta, [BUILD_FILE, 0], []
                else:
                    d = self.pick(snap['deps'])
                    m = self.dmeta[d['name']]
                    ident, priv = (d['name'], {}) if self.chance(75) else (m['var'], {'_name': d['name']})
                    args, kwlit, loc, vs = d['args'], m['kwlit'], m['loc'], [m['var']]
                table = REWRITER_KW[fn]
                present = [a[0] for a in args if a[0] in table]
                op = self.g.weighted([(10, 'set'), (6, 'delete'), (5, 'add'), (4, 'remove'), (2, 'remove_regex'), (1, 'info')])
                kw: T.Dict[str, T.Any] = {}
                expect = 'done'
                if op == 'info':
                    pass
                elif op in ('set', 'delete'):
                    for _ in range(1 + self.i(2)):
                        key = self.pick(present) if present and self.chance(65) else self.pick(sorted(table))
                        if key in kw:
                            continue
                        kw[key] = None if op == 'delete' else self.set_value(fn, table[key], key)
                        if kw[key] is _NOVAL:
                            del kw[key]
                            continue
                        kwlit[key] = ('ids' if isinstance(kw[key], list) else 'id') if table[key] == 'idlist' else 'all'
                        if op == 'delete':
                            kwlit.pop(key, None)
                else:
                    lkeys = [x for x in sorted(table) if table[x] in LIST_TYPES and x != 'default_options']
                    def editable(x: str) -> bool:
                        shape = kwlit.get(x, 'all')
                        if table[x] == 'idlist':
                            return shape in (('all', 'ids', 'id', 'list') if op == 'add' else (('ids', 'id') if x in present else ('all',)))
                        if shape == 'id' and x in present:
                            self.excl['kwargs add/remove on a string-list keyword whose value is a bare identifier (the rewriter skips it: "too complex")'] += 1
                        return shape in (('all', 'ids', 'list') if op == 'add' else ('all',))
                    cand = [x for x in lkeys if editable(x)]
                    if not cand:
                        return
                    key = self.pick([x for x in cand if x in present] or cand)
                    curv = [] if get_kw(args, key) is None else listify_canon(get_kw(args, key))
                    if op == 'add':
                        v = self.set_value(fn, table[key], key, aslist=self.chance(50))
                        if v is _NOVAL:
                            return
                        kw[key] = v
                        if table[key] == 'idlist' and kwlit.get(key, 'all') in ('all', 'ids', 'id'):
                            kwlit[key] = 'ids'
                    elif op == 'remove':
                        if table[key] == 'idlist':
                            names = [n for n, val in env.items() if val in curv]
                            if not names:
                                return
                            kw[key] = self.pick(names) if self.chance(50) else [self.pick(names)]
                        else:
                            strs = [x for x in curv if isinstance(x, str)]
                            if not strs:
                                return
                            kw[key] = self.pick(strs) if self.chance(50) else [self.pick(strs)]
                    else:
                        strs = [x for x in curv if isinstance(x, str)]
                        if not strs or table[key] == 'idlist':
                            return
                        s0 = self.pick(strs)
                        kw[key] = re.escape(s0[:1 + self.i(len(s0))]) + '.*'
                if op != 'info' and not kw:
                    return
                c = {'type': 'kwargs', 'function': fn, 'id': ident, 'operation': op, 'kwargs': kw, '_allowed': [loc], '_vars': vs, **priv}
                if expect != 'done':
                    c['_expect'] = expect
                push(c)
            elif k == 'defopt':
                cur_opts = get_kw(snap['project'], 'default_options')
                form = self.pmeta.get('default_options', 'all')
                if isinstance(cur_opts, dict) or form != 'all':
                    self.excl['default-options command on a project whose default_options is a dict / expression (the rewriter skips it: "too complex")'] += 1
                    return
                entries = [] if cur_opts is None else listify_canon(cur_opts)
                nonlit = set(self.popt_nonliteral)
                op = self.pick(['set', 'set', 'delete'])
                keys: T.List[str] = []
                have = [opt_split(x)[0] for x in entries if isinstance(x, str)]
                have = [x for x in have if x in OPTION_VALUES and x not in ('b_lto', 'b_ndebug')]
                for _ in range(1 + self.i(2)):
                    # b_lto, b_ndebug: base options, unknown to the rewriter without a compiler ("Unknown options")
                    kk = self.pick(have) if have and self.chance(50) else self.pick([x for x in sorted(OPTION_VALUES) if x not in ('b_lto', 'b_ndebug')])
                    if kk not in keys and kk not in nonlit:
                        keys.append(kk)
                if not keys:
                    return
                if op == 'set' and 'prefix' in keys and 'set-backslash' in self.excluded:
                    self.excl[BACKSLASH_EXCLUDED] += 1
                opts = {kk: (self.pick(OPTION_VALUES[kk] + (['C:\\opt\\tools'] if kk == 'prefix' and 'set-backslash' not in self.excluded else []))
                             if op == 'set' else None) for kk in keys}
                push({'type': 'default_options', 'operation': op, 'options': opts, '_allowed': [[BUILD_FILE, 0]]})
            else:
                which = self.i(4)
                if which == 0:
                    push(tcmd('no_such_target', self.pick(['src_add', 'src_rm', 'target_rm', 'extra_files_add']), ['x.c'], _expect='error'))
                elif which == 1 and original:
                    # (a name of the tree as it is: the error command stands alone, earlier commands of this plan are dropped)
                    push(tcmd(self.pick(original), 'target_add', ['x.c'], _expect='error'))
                elif which == 2 and original:
                    push({'type': 'kwargs', 'function': 'target', 'id': self.pick(original), 'operation': 'set', 'kwargs': {'c_args': '-Dx'}, '_expect': 'error'})
                else:
                    push({'type': 'default_options', 'operation': 'set', 'options': {'no_such_option': '1'}, '_expect': 'error'})

        plan = self.g.weighted([(7, 1), (6, 2), (3, 3), (4, 'law')])
        if plan == 'law' and alive:
            name = subject()
            which = self.i(3)
            if which == 0 and foreign(name, 'src'):
                pass
            elif which == 0:
                fs = new_files(name, '.c')
                push(src_cmd(name, 'src_add', fs))
                self.tmeta[name].setdefault('fresh', set()).update(fs)
                push(src_cmd(name, 'src_rm', fs))
                law = 'restore-sources'
            elif which == 1 and foreign(name, 'src'):
                pass
            elif which == 1:
                have = [f for f in cur(name)['sources'] if self.tmeta[name]['src_files'].get(f, {}).get('literal') and not self.tmeta[name]['src_files'].get(f, {}).get('shared')]
                if have:
                    f0 = self.pick(have)
                    push(src_cmd(name, 'src_rm', [f0]))
                    self.tmeta[name].setdefault('fresh', set()).add(f0)
                    push(src_cmd(name, 'src_add', [f0]))
                    law = 'restore-sources'
            elif not (self.tmeta[name].get('extra_scalar') and 'extra-scalar' in self.excluded) and not foreign(name, 'extra'):
                fs = new_files(name, '.h')
                push(src_cmd(name, 'extra_files_add', fs))
                self.tmeta[name].setdefault('fresh', set()).update(fs)
                push(src_cmd(name, 'extra_files_rm', fs))
                law = 'restore-sources'
        else:
            want = plan if isinstance(plan, int) else 1
            for _ in range(4 * want):
                if len(cmds) >= want:
                    break
                one()
        if not cmds and alive:
            plain = [n for n in alive if not (self.tmeta[n].get('src_foreign') and 'add-foreign-list' in self.excluded)]
            push(src_cmd(plain[0], 'src_add', ['fallback_new.c']) if plain else tcmd(alive[0], 'info'))
        # an error command stands alone
        if any(c.get('_expect') == 'error' for c in cmds):
            cmds = [c for c in cmds if c.get('_expect') == 'error'][:1]
            law = None
        # packaging into invocations
        mode = self.g.weighted([(35, 'batch'), (40, 'steps'), (25, 'cli')])
        if mode == 'cli' and 'cli-bool-false' in self.excluded:
            for c in cmds:
                if c['type'] == 'kwargs' and c['operation'] in ('set', 'add'):
                    for kk, vv in c['kwargs'].items():
                        if vv is False:
                            self.excl['CLI `kwargs set <bool key> false` (effect/cli-bool-false)'] += 1
                            mode = 'steps'
        if mode == 'cli' and all(cli_argv(strip_private(c)) is not None for c in cmds):
            steps = [{'mode': 'cli', 'cmds': [c]} for c in cmds]
        elif mode == 'batch':
            steps = [{'mode': 'json', 'cmds': cmds}]
            mode = 'batch'
        else:
            steps = [{'mode': 'json', 'cmds': [c]} for c in cmds]
            mode = 'steps'
        cls = (cmds[0]['operation'] if cmds[0]['type'] == 'target' else cmds[0]['type'] + '-' + cmds[0]['operation']) + (f'+{len(cmds) - 1}' if len(cmds) > 1 else '') + '/' + mode
        if law:
            cls = 'law:' + cls
        return steps, law, cls

    def is_last(self, loc: T.List[T.Any]) -> bool:
        entries = self.files[loc[0]]
        return all(isinstance(e, str) and not e.strip() for e in entries[loc[1] + 1:])

    def var_used_elsewhere(self, var: str, loc: T.List[T.Any]) -> bool:
        for rel, entries in self.files.items():
            for i, e in enumerate(entries):
                if [rel, i] == loc or isinstance(e, str):
                    continue
                if _mentions(e, var):
                    return True
        return False

    def set_value(self, fn: str, typ: str, key: str, aslist: bool = False) -> T.Any:
        if typ == 'bool':
            return bool(self.i(2))
        if typ == 'str':
            if key == 'meson_version':
                return self.pick(['>=0.55.0', '>=1.1'])
            if key == 'method':
                return self.pick(['cmake', 'pkg-config', 'auto'])
            if key == 'language':
                return self.pick(['c', 'cpp'])
            if key == 'subproject_dir':
                return self.pick(['subprojects', 'third_party'])
            vals = ['/usr/local', 'x y', '1.2.3', 'héllo', '$ORIGIN/../lib', 'a,b', 'tab\tin', 'q"uote']
            if 'string-quote' not in self.excluded:
                vals.append("it's")
            if 'set-backslash' not in self.excluded:
                vals += ['C:\\tools', 'back\\\\slash', 'new\\nline']
            else:
                self.excl[BACKSLASH_EXCLUDED] += 1
            return self.pick(vals)
        if typ == 'strlist':
            if key == 'version':
                pool = ['>=1.0', '<3', '!=2.1']
            elif key == 'modules':
                pool = ['core', 'gui', 'net']
            elif key == 'default_options':
                pool = ['buildtype=plain', 'warning_level=3', 'werror=true']
            else:
                pool = ['BSD-3', 'Zlib', 'LGPL', 'COPYING.txt', 'x y']
                if 'set-backslash' not in self.excluded:
                    pool = pool + ['doc\\LICENSE.txt', 'a\\tb']
                else:
                    self.excl[BACKSLASH_EXCLUDED] += 1
            if aslist or self.chance(40):
                n = 1 + self.i(2)
                out = []
                for _ in range(n):
                    v = self.pick(pool)
                    if v not in out:
                        out.append(v)
                return out
            return self.pick(pool)
        if typ == 'idlist':
            pool = self.depvars if key == 'dependencies' else []
            if not pool:
                return _NOVAL
            if aslist or self.chance(40):
                return [self.pick(pool)]
            return self.pick(pool)
        raise HarnessError(typ)


_NOVAL = object()
BACKSLASH_EXCLUDED = ('command value containing a backslash for kwargs set/add (string and string-list keys) or default_options set: '
                      'not offered (effect/kwargs-set:backslash-interpreted)')


def _mentions(x: T.Any, var: str) -> bool:
    if isinstance(x, list):
        if len(x) == 2 and x[0] == 'id' and x[1] == var:
            return True
        if len(x) == 3 and x[0] == 'str' and x[1] == var:
            return True          # get_variable('var')
        return any(_mentions(y, var) for y in x)
    return False


def case_strategy(excluded: T.FrozenSet[str]) -> T.Any:
    from hypothesis import strategies as st

    @st.composite
    def cases(draw: T.Any) -> dict:
        tg = TreeGen(draw, excluded)
        tg.build_tree()
        files = tg.render()
        try:
            model = read_tree({k: file_text(v) for k, v in files.items()})
        except RefProblem as e:
            return {'files': files, 'steps': [], 'bad': f'{e.kind}: {e.why}', 'excl': dict(tg.excl)}
        steps, law, cls = tg.gen_steps(model)
        case = {'files': files, 'steps': steps, 'cls': cls, 'excl': dict(tg.excl)}
        if law:
            case['law'] = law
        return case

    return cases()


# =============================================================================================
# 12. campaign

# signature of a probe -> generator classes that stay out of the random campaign while the probe still fails
EXCLUDES = {
    'reprint/parens-not': ['parens-not'], 'reprint/parens-uminus': ['parens-uminus'], 'reprint/parens-method': ['parens-method'],
    'reprint/parens-index': ['parens-index'], 'reprint/parens-compare': ['parens-compare'], 'reprint/parens-and': ['parens-and'],
    'reprint/parens-ternary': ['parens-ternary'], 'reprint/string-quote': ['string-quote'], 'reprint/parens-mul-divmod': ['parens-mul-divmod'],
    'reprint/string-newline-raw': ['string-newline'], 'analysis-crash/order-compare': ['order-compare'],
    'splice/odd-line-separator': ['odd-line-separator', 'string-unisep', 'string-control'],
    'effect/kwargs-set:cli-bool-false': ['cli-bool-false'], 'effect/kwargs-set:backslash-interpreted': ['set-backslash'],
    'crash/target_rm:IndexError-string-index-out-of-range': ['rm-last-assignment'],
    'effect/extra_files_add:no-longer-evaluates': ['extra-scalar'],
    'reprint/string-multiline': ['multiline-trailing-ws'],
    'effect/add:foreign-list-extended': ['add-foreign-list'],
}


def run_probes(ev: Evidence) -> T.Tuple[T.List[Failure], T.FrozenSet[str]]:
    fails: T.List[Failure] = []
    excluded: T.Set[str] = set()
    for sig, what, make in PROBES:
        case = make()
        case['cls'] = 'probe:' + sig
        key = case_fp(case)
        if key in _JUDGED:          # the identical case was just replayed from replays/regress in this run
            f = _JUDGED[key]
            ev.case(None, nontrivial=False, cls=case['cls'], fingerprint=key, sample={'files': {k: file_text(v) for k, v in case['files'].items()}, 'what': what})
        else:
            f = check_case(case, ev)
        ev.event('probe')
        if f is not None:
            fails.append(f)
            if f.sig == sig:
                excluded.update(EXCLUDES.get(sig, []))
                ev.event('probe_still_failing')
    return fails, frozenset(excluded)


def _campaign_shard(shard: T.Tuple[int, int, T.Tuple[str, ...]], ev: Evidence, fails: T.List[Failure]) -> None:
    seed, n, excl = shard
    excluded = frozenset(excl)

    def check(case: dict) -> T.Optional[Failure]:
        if case.get('bad'):
            ev.exclude('generated tree outside the reference model: ' + case['bad'].split(':')[0])
            return None
        for k, v in case.get('excl', {}).items():
            ev.exclude(k, v)
        return check_case(case, ev)

    campaign(case_strategy(excluded), check, n, seed, fails)
    global _SCRATCH
    if _SCRATCH is not None:
        shutil.rmtree(_SCRATCH, ignore_errors=True)
        _SCRATCH = None


def selftest(ctx: Ctx) -> None:
    """the reference reading against the repo's own rewrite fixtures (expected values pinned in unittests/rewritetests.py)"""
    from harness.core import REPO
    base = os.path.join(REPO, 'test cases', 'rewrite')

    def load(d: str) -> T.Dict[str, str]:
        out = {}
        for dp, _dn, fn in os.walk(os.path.join(base, d)):
            for f in fn:
                if f == BUILD_FILE:
                    p = os.path.join(dp, f)
                    with open(p, encoding='utf-8') as fh:
                        out[os.path.relpath(p, os.path.join(base, d))] = fh.read()
        return out
    try:
        m = read_tree(load('1 basic'))
    except RefProblem as e:
        raise HarnessError(f'reference cannot read test cases/rewrite/1 basic: {e}')
    want = {'trivialprog0': ['fileA.cpp', 'fileB.cpp', 'fileC.cpp', 'main.cpp'], 'trivialprog5': ['fileB.cpp', 'fileC.cpp', 'main.cpp'],
            'trivialprog7': ['fileA.cpp', 'fileB.cpp', 'fileC.cpp', 'main.cpp'], 'trivialprog10': ['fileA.cpp', 'fileB.cpp', 'main.cpp'],
            'trivialprog12': ['fileA.cpp', 'main.cpp'], 'rightName': ['main.cpp']}
    for name, srcs in want.items():
        t = m.target(name)
        if t is None or t['sources'] != srcs:
            raise HarnessError(f'reference reading of "1 basic": target {name} -> {t and t["sources"]}, unittests pin {srcs}')
    m2 = read_tree(load('2 subdirs'))
    t = m2.target('something')
    if t is None or t['sources'] != ['sub2/first.c', 'sub2/second.c']:
        raise HarnessError(f'reference reading of "2 subdirs": {t}')
    m6 = read_tree(load('6 extra_files'))
    t = m6.target('trivialprog5')
    if t is None or t['extra'] != ['fileB.hpp', 'fileC.hpp', 'main.hpp']:
        raise HarnessError(f'reference reading of "6 extra_files": {t}')
    # expected-effect model against the pinned kwargs fixtures
    m3 = read_tree(load('3 kwargs'))
    snap = m3.snapshot()
    with open(os.path.join(base, '3 kwargs', 'remove.json'), encoding='utf-8') as fh:
        cmds = json.load(fh)
    for c in cmds:
        if c.get('operation') != 'info':
            snap, _ = apply_cmd(snap, c, m3.env, False)
    if listify_canon(get_kw(snap['project'], 'license')) != ['GPL']:
        raise HarnessError(f'expected-effect model on 3 kwargs/remove.json: license -> {get_kw(snap["project"], "license")}, unittests pin GPL')
    # alignment
    st = ['a = 1\n', 'b = [\n 1]\n', '\n', 'c = 3\n']
    if align(st, 'a = 1\nb = [1, 2]\n\nc = 3\n') != [(1, 2, 'b = [1, 2]\n')] or align(st, ''.join(st) + 'd = 4\n') != [(4, 4, 'd = 4\n')] or align(st, ''.join(st)):
        raise HarnessError('statement alignment self-test failed')


def run(ctx: Ctx) -> None:
    pf, excluded = run_probes(ctx.ev)
    ctx.fail_all(pf)
    ctx.ev.extra['excluded_classes_active'] = sorted(excluded)
    n = ctx.n(2400, 60000)
    shards = 32 if ctx.quick else 128
    per = max(1, n // shards)
    pmap(ctx, _campaign_shard, [(s, per, tuple(sorted(excluded))) for s in shard_seeds(ctx, shards)])


_JUDGED: T.Dict[bytes, T.Optional[Failure]] = {}      # verdicts of the regress replays of this run, by case fingerprint


def replay(ctx: Ctx, case: T.Any, doc: dict) -> T.Optional[Failure]:
    if not isinstance(case, dict) or not isinstance(case.get('files'), dict) or not isinstance(case.get('steps'), list):
        raise HarnessError('C17 replay file without a case of the form {files, steps}')
    f = check_case(case, ctx.ev, count=False)
    _JUDGED[case_fp(case)] = f
    return f
