"""C15 - Introspection files describe the build that was actually generated.

Purely relational: meson-info/intro-*.json are compared with other artefacts of the SAME configuration -
build.ninja (independent parser), argv/env recorded by tests under real `meson test`, the tree created
by real `meson install --destdir`, get_option() messages, and the generator's own list of build files.
"""
from __future__ import annotations

import glob
import json
import os
import shlex
import shutil
import typing as T

from hypothesis import strategies as st

from harness import c15corpus as c15_corpus
from harness import projgen, refninja
from harness.core import Ctx, Evidence, Failure, HarnessError, campaign, make_scratch, pmap, shard_seeds
from harness.mesondrv import run_inproc, run_sub, write_tree

LEVEL = 'exploration'
RULE = ('Hypothesis project models (profile intro: all target kinds, generated sources, subdirs, optional subproject, layout/default_library/unity) '
        'extended with project options set from the command line, tests/benchmarks that run a dumper with generated args/env/suites/workdir/timeout/'
        'priority/is_parallel, and install rules (data, headers, man, subdir, installed targets, tags); after the real `meson setup` the intro files are '
        'compared with: build.ninja statements (filenames, compile inputs, compile parameters, all-membership), argv/env/suites really used by `meson test`, '
        'the tree really created by `meson install --destdir` (overall and per tag), get_option() messages, and the build files the generator wrote. '
        'non-trivial = project with >=1 generated source or subproject and >=1 test and >=1 install rule; distinct by model hash. '
        'Corpus half (harness/c15corpus.py): projects of the repository\'s `test cases/{common,unit,native,linuxlike,rust,java}` that configure here - a fixed '
        'sample plus a seed-chosen sample in the quick tier, all of them in the thorough tier - with the model-free relations: intro-targets filenames '
        '= outputs of the producing build.ninja statements, C/C++ sources = inputs of the compile statements of the private dir, compile parameters = ARGS; '
        'intro-buildsystem_files (meson.build / option files) = the files the meson process really opened (audit hook); intro-tests cmd/env/workdir = what '
        'recorder stand-ins of the built programs receive under `meson test`; test depends within the test-prereq closure; intro-installed = tree created by '
        '`meson install --destdir`; all unchanged by a no-change reconfigure. non-trivial there = >=2 targets, a compared source block and a recorded test '
        'or an installed entry. Cross-build family: seeded assignments of per-machine options (pkg_config_path, cmake_prefix_path, c_args, c_link_args, c_std and their build.* twins) in a cross build for the same machine; every intro-buildoptions entry must equal what get_option() of that name returned.')
ASSUMPTIONS = [
    'build.ninja is read by harness/refninja.py',
    'installed built targets are represented by placeholder files created by the harness at the paths build.ninja produces (nothing is compiled); `meson install --no-rebuild` copies them',
    'with unity builds the compile statements consume unity files: then only inclusion (not equality) of sources is asserted',
    'corpus half: "read" means opened for reading by the meson process itself, outside shutil (a wrap overlay that is only copied is not read as a build definition)',
    'corpus half: projects with install scripts / gnome / i18n helpers are not held to the install relation (their scripts create files no rule names)',
]

DUMP_PY = r'''#!/usr/bin/env python3
import sys, os, json
log, ident = sys.argv[1], sys.argv[2]
os.makedirs(log, exist_ok=True)
with open(os.path.join(log, ident + '.json'), 'w') as f:
    json.dump({'argv': sys.argv, 'env': dict(os.environ), 'cwd': os.getcwd()}, f)
'''

OPT_FILE = '''option('str_opt', type: 'string', value: 'dflt')
option('bool_opt', type: 'boolean', value: false)
option('int_opt', type: 'integer', value: 3, min: 0, max: 100)
option('combo_opt', type: 'combo', choices: ['one', 'two', 'three'], value: 'one')
option('arr_opt', type: 'array', choices: ['x', 'y', 'z'], value: ['x'])
'''

READ_OPTS = ['str_opt', 'bool_opt', 'int_opt', 'combo_opt', 'arr_opt', 'prefix', 'bindir', 'libdir', 'datadir', 'buildtype', 'debug', 'optimization',
             'warning_level', 'default_library', 'unity', 'layout', 'werror', 'strip', 'unity_size', 'wrap_mode']


@st.composite
def cases(draw: T.Any) -> dict:
    model = draw(projgen.project_models(profile='intro', max_targets=8, allow_collisions=False))
    word = st.sampled_from(['a', 'b c', 'x=1', '--flag', 'é', '', '$HOME', 'q"q'])
    tests = []
    dep_pool = [t for t in model['targets'] if t['kind'] in ('shared', 'library', 'both', 'exe', 'static')]
    for i in range(draw(st.integers(1, 3))):
        tests.append({
            'name': f'dump{i}', 'benchmark': draw(st.integers(0, 3)) == 0,
            'args': draw(st.lists(word, max_size=3)),
            'env': draw(st.dictionaries(st.sampled_from(['VERIF_A', 'VERIF_B', 'VERIF_C']), word, max_size=2)),
            'suite': draw(st.lists(st.sampled_from(['s1', 's2', 'slow']), max_size=2, unique=True)),
            'is_parallel': draw(st.booleans()), 'priority': draw(st.integers(-2, 5)), 'timeout': draw(st.sampled_from([None, 7, 60])),
            'workdir': draw(st.booleans()),
            # targets of the project the test depends on (shared libraries among them make meson add their
            # directories to LD_LIBRARY_PATH of the test - in the real run and, it must be the same, in the intro file)
            'depends': [t['id'] for t in draw(st.lists(st.sampled_from(dep_pool), max_size=3, unique_by=lambda t: t['id']))] if dep_pool else [],
        })
    opts = {}
    if draw(st.booleans()):
        opts['str_opt'] = draw(st.sampled_from(['hello', 'a b', 'é']))
    if draw(st.booleans()):
        opts['bool_opt'] = 'true'
    if draw(st.booleans()):
        opts['int_opt'] = str(draw(st.integers(0, 100)))
    if draw(st.booleans()):
        opts['combo_opt'] = draw(st.sampled_from(['two', 'three']))
    if draw(st.booleans()):
        opts['arr_opt'] = draw(st.sampled_from(['x,y', 'z', 'y,z,x']))
    if draw(st.booleans()):
        opts['buildtype'] = draw(st.sampled_from(['release', 'debugoptimized', 'plain']))
    prefix = draw(st.sampled_from(['/usr', '/usr/local', '/opt/my app']))
    inst = {
        'data': draw(st.lists(st.tuples(st.sampled_from(['d1.txt', 'd 2.txt', 'dü.dat']), st.sampled_from(['share/x', 'etc', '/abs/dir']),
                                        st.sampled_from([None, 'runtime', 'devel', 'custom'])), max_size=2, unique_by=lambda x: x[0])),
        # (file, subdir or None); a subdir starting with '@' stands for install_dir: <rest> (incompatible with subdir:)
        'headers': draw(st.lists(st.tuples(st.sampled_from(['h1.h', 'h2.h']), st.sampled_from([None, 'inc', 'a/b', '@cust/hdr', '@share/h x'])), max_size=2, unique_by=lambda x: x[0])),
        # 'name@locale' = install_man(name, locale: locale): the only install rule that renames the file (name.<locale>.N -> name.N)
        'man': draw(st.lists(st.sampled_from(['foo.1', 'bar.3', 'baz.fr.1@fr', 'tool.conf.de.5@de']), max_size=3, unique=True)),
        # ('tree/': the same directory spelled with a trailing slash - still installed as <install_dir>/tree)
        'subdir': draw(st.sampled_from([None, ('tree', 'share/t', None, False), ('tree', 'share/t', 'devel', True),
                                        ('tree/', 'share/t2', None, False), ('tree/', 'share/t3', 'devel', True)])),
    }
    # an extra executable / static library / custom target placed with build_subdir: (since 1.10: "places the build results
    # in a subdirectory of the given name"), the value the intro filename must follow
    bsd = draw(st.sampled_from([None, None, 'bsd nest', 'bsd_x/y z']))       # (names no model target can collide with)
    # a small extra subproject whose options yield to same-named options of the parent; the user may set them to anything,
    # also to exactly the value they already have in the subproject's option file
    osp = None
    if draw(st.booleans()):
        osp = {}
        if draw(st.booleans()):
            osp['flavour'] = draw(st.sampled_from(['chocolate', 'vanilla', 'strawberry']))
        if draw(st.booleans()):
            osp['level'] = str(draw(st.sampled_from([7, 3, 11])))
        if draw(st.booleans()):
            osp['plain'] = draw(st.sampled_from(['sub default', 'given']))
    # a custom target that is installed but not built by default (optional for the installer: installed when it has been built)
    inst['optct'] = draw(st.booleans())
    return {'model': model, 'tests': tests, 'opts': opts, 'prefix': prefix, 'install': inst, 'build_subdir': bsd, 'osp': osp}


def q(s: str) -> str:
    return projgen.q(s)


def extras(c: dict, logdir: str) -> T.Tuple[T.List[str], T.Dict[str, str]]:
    lines: T.List[str] = []
    files: T.Dict[str, str] = {'dump.py': DUMP_PY, 'meson.options': OPT_FILE}
    lines.append("dump = find_program('dump.py')")
    for o in READ_OPTS:
        lines.append(f"message('OPT:{o}=@0@'.format(get_option('{o}')))")
    for t in c['tests']:
        kw = [f"args: [{q(logdir)}, {q(t['name'])}" + ''.join(', ' + q(a) for a in t['args']) + ']']
        if t['env']:
            kw.append('env: {' + ', '.join(f'{q(k)}: {q(v)}' for k, v in sorted(t['env'].items())) + '}')
        if t['suite']:
            kw.append('suite: [' + ', '.join(q(s) for s in t['suite']) + ']')
        if not t['benchmark']:
            kw.append(f"is_parallel: {'true' if t['is_parallel'] else 'false'}")
        kw.append(f"priority: {t['priority']}")
        if t['timeout'] is not None:
            kw.append(f"timeout: {t['timeout']}")
        if t['workdir']:
            kw.append('workdir: meson.current_source_dir()')
        if t.get('depends'):
            kw.append('depends: [' + ', '.join(t['depends']) + ']')
        lines.append(f"{'benchmark' if t['benchmark'] else 'test'}({q(t['name'])}, dump, {', '.join(kw)})")
    if c.get('build_subdir'):
        b = q(c['build_subdir'])
        files['bsd_main.c'] = 'int main(void) { return 0; }\n'
        files['bsd_lib.c'] = 'int bsd_lib(void) { return 0; }\n'
        lines.append(f"executable('bsd_prog', 'bsd_main.c', build_subdir: {b})")
        lines.append(f"static_library('bsd_lib', 'bsd_lib.c', build_subdir: {b})")
        lines.append(f"custom_target('bsd_gen', output: 'bsd_gen.txt', command: [dump, '@OUTPUT@'], build_subdir: {b})")
    if c.get('osp') is not None:
        files['meson.options'] += ("option('flavour', type: 'combo', choices: ['chocolate', 'vanilla', 'strawberry'], value: 'strawberry')\n"
                                   "option('level', type: 'integer', value: 3, min: 0, max: 100)\n")
        files['subprojects/osp/meson.options'] = ("option('flavour', type: 'combo', choices: ['chocolate', 'vanilla', 'strawberry'], value: 'chocolate', yield: true)\n"
                                                  "option('level', type: 'integer', value: 7, min: 0, max: 100, yield: true)\n"
                                                  "option('plain', type: 'string', value: 'sub default')\n")
        files['subprojects/osp/meson.build'] = ("project('osp')\n" + ''.join(
            f"message('OPT:osp:{o}=@0@'.format(get_option('{o}')))\n" for o in ('flavour', 'level', 'plain')))
        lines.append("subproject('osp')")
    ins = c['install']
    for fn, d, tag in ins['data']:
        files[fn] = f'data {fn}\n'
        lines.append(f"install_data({q(fn)}, install_dir: {q(d)}" + (f", install_tag: {q(tag)}" if tag else '') + ')')
    for fn, sd in ins['headers']:
        files[fn] = f'/* {fn} */\n'
        lines.append(f"install_headers({q(fn)}" + ((f", install_dir: {q(sd[1:])}" if sd.startswith('@') else f", subdir: {q(sd)}") if sd else '') + ')')
    for ent in ins['man']:
        fn, _, loc = ent.partition('@')
        files[fn] = f'.TH {fn}\n'
        lines.append(f"install_man({q(fn)}" + (f", locale: {q(loc)}" if loc else '') + ')')
    if ins.get('optct'):
        lines.append("custom_target('optct', output: 'optct.txt', command: [dump, '@OUTPUT@'], build_by_default: false, install: true, "
                     "install_dir: 'share/optct', install_tag: 'doc')")
    if ins['subdir']:
        sd, dest, tag, excl = ins['subdir']
        files[f'{sd.rstrip("/")}/f1.txt'] = 'f1\n'
        files[f'{sd.rstrip("/")}/sub/f2.txt'] = 'f2\n'
        files[f'{sd.rstrip("/")}/skip.me'] = 'x\n'
        kw = f"install_dir: {q(dest)}" + (f", install_tag: {q(tag)}" if tag else '') + (", exclude_files: ['skip.me']" if excl else '')
        lines.append(f"install_subdir({q(sd)}, {kw})")
    return lines, files


def rel_build(p: str, bld: str) -> str:
    return refninja.canon_path(os.path.relpath(p, bld)) if os.path.isabs(p) else refninja.canon_path(p)


def abspath_in(p: str, base: str) -> str:
    return os.path.normpath(p if os.path.isabs(p) else os.path.join(base, p))


def norm_param(a: str, bld: str) -> str:
    for pre in ('-I', '-isystem', '-L'):
        if a.startswith(pre) and len(a) > len(pre) and not a[len(pre):].startswith('='):
            return pre + abspath_in(a[len(pre):], bld)
    return a


def check_case(c: dict, workdir: str, ev: T.Optional[Evidence], sub: bool = False) -> T.Optional[Failure]:
    shutil.rmtree(workdir, ignore_errors=True)
    src = os.path.join(workdir, 'src')
    bld = os.path.join(workdir, 'bld')
    logdir = os.path.join(workdir, 'log')
    dest = os.path.join(workdir, 'dest')
    os.makedirs(src)
    model = c['model']
    try:
        files = projgen.materialise(model)
        ex_lines, ex_files = extras(c, logdir)
        root_lines = files['meson.build'].rstrip('\n').split('\n')
        files['meson.build'] = '\n'.join(root_lines[:1] + root_lines[1:] + ex_lines) + '\n'
        files.update(ex_files)
        write_tree(src, files)
        os.chmod(os.path.join(src, 'gen.py'), 0o755)
        os.chmod(os.path.join(src, 'dump.py'), 0o755)
        args = ['setup', f'--prefix={c["prefix"]}'] + projgen.setup_args(model) + [f'-D{k}={v}' for k, v in sorted(c['opts'].items())] \
            + [f'-Dosp:{k}={v}' for k, v in sorted((c.get('osp') or {}).items())] + [bld, src]
        r = (run_sub if sub else run_inproc)(args)
        if r.rc != 0:
            if ev is not None:
                ev.exclude('project did not configure')
            if r.unhandled:
                return Failure('setup/unhandled-exception', c, r.text[-1500:])
            return Failure('setup/rejected', c, f'generated project failed to configure:\n{r.text[-1500:]}')
        info = os.path.join(bld, 'meson-info')

        def load(name: str) -> T.Any:
            with open(os.path.join(info, f'intro-{name}.json'), encoding='utf-8') as fh:
                return json.load(fh)
        try:
            m = refninja.parse_file(os.path.join(bld, 'build.ninja'))
        except refninja.NinjaError:
            if ev is not None:
                ev.exclude('build.ninja invalid (C04 territory)')
            return None
        targets = load('targets')
        all_edges, _ = m.closure(['all'])
        # ---- targets ------------------------------------------------------
        for t in targets:
            fns = [rel_build(x, bld) for x in t['filename']]
            if t['type'] in ('run', 'alias'):
                continue
            e = m.edge_for(fns[0]) if fns else None
            if e is None:
                return Failure(f'targets/filename-not-produced:{t["type"]}', c,
                               f'intro-targets.json: target {t["name"]!r} ({t["type"]}) filename {t["filename"]} is not produced by any build.ninja statement')
            if sorted(e.outs) != sorted(fns):
                return Failure(f'targets/filename-set-differs:{t["type"]}', c,
                               f'intro-targets.json: target {t["name"]!r} lists {sorted(fns)} but the statement producing it outputs {sorted(e.outs)}')
            if t['build_by_default'] != (id(e) in all_edges):
                # a target may be pulled into `all` as a dependency of another default target: only the missing direction is a contradiction
                if t['build_by_default']:
                    return Failure('targets/build_by_default-not-in-all', c,
                                   f'intro-targets.json says {t["name"]!r} is built by default but `all` does not reach it')
            for ts in t['target_sources']:
                if 'language' not in ts:
                    continue
                if ts['language'] not in ('c',):
                    continue
                # the compile statements of this target: objects that feed its link statement (or the objects of the target's private dir)
                objs = [i for i in e.ins if i.endswith('.o')]
                if t['type'] == 'custom':
                    continue
                # ... restricted to the target's own private directory: link_whole of a static library into a static
                # library feeds the other target's objects into this archive, and a both_libraries() shared half may
                # reuse the static half's objects; those are compiled (and listed) under the target that owns them.
                pdir = '/' + os.path.basename(fns[0]) + '.p/'
                objs = [o for o in objs if pdir in '/' + o]
                ins: T.Set[str] = set()
                params = None
                comp = None
                for o in objs:
                    ce = m.edge_for(o)
                    if ce is None or not ce.rule.name.startswith('c_COMPILER'):
                        continue
                    for i in ce.ins:
                        ins.add(abspath_in(i, bld))
                    a = ce.bindings.get('ARGS', '')
                    p = [norm_param(x, bld) for x in shlex.split(a)]
                    if params is None:
                        params = p
                    comp = shlex.split(ce.command())[0]
                want = {os.path.normpath(x) for x in ts['sources'] + ts['generated_sources']}
                unity = {os.path.normpath(x) for x in ts.get('unity_sources', [])}
                if not objs:
                    continue
                if ins != want:
                    return Failure('targets/sources-differ' + (':unity' if unity else ''), c,
                                   f'intro-targets.json: target {t["name"]!r} lists sources+generated_sources {sorted(want)} but its compile statements consume {sorted(ins)}')
                if unity:
                    real_src = {os.path.join(src, f) for f in files if f.endswith('.c')}
                    if not unity <= real_src | want | {os.path.normpath(os.path.join(bld, o)) for o in m.producer}:
                        return Failure('targets/unity_sources-unknown', c, f'target {t["name"]!r} unity_sources {sorted(unity)} are not files of the project')
                if params is not None:
                    got = [norm_param(x, bld) for x in ts['parameters']]
                    if got != params:
                        return Failure('targets/parameters-differ', c,
                                       f'intro-targets.json: target {t["name"]!r} parameters differ from ARGS of its compile statement\n intro: {got}\n ninja: {params}')
                    if comp is not None and ts['compiler'] and comp != ts['compiler'][0]:
                        return Failure('targets/compiler-differs', c, f'target {t["name"]!r}: intro compiler {ts["compiler"]} vs command {comp!r}')
        # every model target appears exactly once
        names = sorted((t['name'], t['type']) for t in targets if not t.get('subproject'))
        tmap = {'exe': 'executable', 'static': 'static library', 'shared': 'shared library', 'ct': 'custom', 'run': 'run', 'alias': 'alias'}
        dl = model['options']['default_library']
        want_names = []
        for t in model['targets']:
            if t['kind'] == 'cfg':
                continue
            if t['kind'] in ('both',) or (t['kind'] == 'library' and dl == 'both'):
                want_names += [(t['name'], 'static library'), (t['name'], 'shared library')]
            elif t['kind'] == 'library':
                want_names.append((t['name'], 'static library' if dl == 'static' else 'shared library'))
            else:
                want_names.append((t['name'], tmap[t['kind']]))
        if c.get('build_subdir'):
            want_names += [('bsd_prog', 'executable'), ('bsd_lib', 'static library'), ('bsd_gen', 'custom')]
        if c['install'].get('optct'):
            want_names.append(('optct', 'custom'))
        if sorted(want_names) != names:
            return Failure('targets/set-differs', c, f'intro-targets.json lists {names}, the build definition declares {sorted(want_names)}')
        # ---- buildoptions ---------------------------------------------------
        bo = {o['name']: o['value'] for o in load('buildoptions')}
        msgs = dict(x[4:].split('=', 1) for x in r.messages() + r.sub_messages('osp') if x.startswith('OPT:'))
        for k, shown in msgs.items():
            if k not in bo:
                return Failure('buildoptions/missing', c, f'intro-buildoptions.json has no entry for {k!r} although get_option({k!r}) returned {shown!r}')
            v = bo[k]
            if isinstance(v, bool):
                rv = 'true' if v else 'false'
            elif isinstance(v, list):
                rv = '[' + ', '.join("'" + x + "'" for x in v) + ']'
            else:
                rv = str(v)
            if rv != shown:
                return Failure(f'buildoptions/value-differs:{k}', c, f'intro-buildoptions.json {k}={v!r} but get_option() returned {shown!r}')
        # ---- buildsystem files ----------------------------------------------
        bs = sorted(os.path.normpath(x) for x in load('buildsystem_files'))
        wantbs = sorted(os.path.join(src, f) for f in files if os.path.basename(f) in ('meson.build', 'meson.options', 'meson_options.txt'))
        cfg_inputs = {os.path.join(src, f) for f in files if f.endswith('_in.h')}
        bs = [x for x in bs if x not in cfg_inputs]
        if bs != wantbs:
            return Failure('buildsystem_files/differs', c, f'intro-buildsystem_files.json {bs}\n but the build definition consists of {wantbs}')
        # ---- tests ------------------------------------------------------------
        for kind, fname in (('test', 'tests'), ('benchmark', 'benchmarks')):
            mine = [t for t in c['tests'] if t['benchmark'] == (kind == 'benchmark')]
            if not mine:
                continue
            intro = {t['name']: t for t in load(fname)}
            shutil.rmtree(logdir, ignore_errors=True)
            cmd = ['test', '--no-rebuild', '-C', bld] + (['--benchmark'] if kind == 'benchmark' else []) + [t['name'] for t in mine]
            tr = run_sub(cmd, timeout=120)
            for t in mine:
                it = intro.get(t['name'])
                if it is None:
                    return Failure(f'{fname}/missing', c, f'intro-{fname}.json does not list {t["name"]!r}')
                p = os.path.join(logdir, t['name'] + '.json')
                if not os.path.exists(p):
                    return Failure(f'{fname}/not-run', c, f'`meson {" ".join(cmd)}` did not run {t["name"]!r} (exit {tr.rc})\n{tr.text[-600:]}')
                with open(p) as fh:
                    rec = json.load(fh)
                # real argv: [script, log, id, args...] (possibly preceded by the interpreter inside cmd)
                icmd = it['cmd']
                real = rec['argv']
                if icmd[-len(real):] != real or os.path.basename(icmd[-len(real)]) != 'dump.py':
                    return Failure(f'{fname}/cmd-differs', c, f'intro-{fname}.json cmd {icmd} but the test program really received {real}')
                for k, v in it['env'].items():
                    if rec['env'].get(k) != v:
                        return Failure(f'{fname}/env-differs', c, f'intro-{fname}.json env {k}={v!r} but the test saw {rec["env"].get(k)!r}')
                for k, v in t['env'].items():
                    if it['env'].get(k) != v or rec['env'].get(k) != v:
                        return Failure(f'{fname}/env-missing', c, f'test env {k}={v!r}: intro has {it["env"].get(k)!r}, the test saw {rec["env"].get(k)!r}')
                wd = it['workdir']
                if wd is not None and os.path.realpath(rec['cwd']) != os.path.realpath(wd):
                    return Failure(f'{fname}/workdir-differs', c, f'intro workdir {wd!r} but the test ran in {rec["cwd"]!r}')
                if (wd is not None) != t['workdir']:
                    return Failure(f'{fname}/workdir-differs', c, f'intro workdir {wd!r} vs build definition workdir set={t["workdir"]}')
                if it['priority'] != t['priority'] or (kind == 'test' and it['is_parallel'] != t['is_parallel']):
                    return Failure(f'{fname}/attrs-differ', c, f'intro {it["priority"], it["is_parallel"]} vs definition {t["priority"], t["is_parallel"]}')
                if it['timeout'] != (t['timeout'] if t['timeout'] is not None else 30):
                    return Failure(f'{fname}/timeout-differs', c, f'intro timeout {it["timeout"]} vs definition {t["timeout"]} (default 30)')
                # suites as `meson test --list --suite S` sees them
            for s in ('s1', 's2', 'slow'):
                lr = run_sub(['test', '--no-rebuild', '-C', bld, '--list', '--suite', s] + (['--benchmark'] if kind == 'benchmark' else []))
                listed = {ln.rsplit(':', 1)[-1].strip() for ln in lr.out.splitlines() if ln.strip()}
                by_intro = {n for n, it in intro.items() if any(x == s or x.endswith(':' + s) for x in it['suite'])}
                mine_names = {t['name'] for t in mine}
                if listed & mine_names != by_intro & mine_names:
                    return Failure(f'{fname}/suite-differs', c, f'suite {s!r}: meson test --list gives {sorted(listed & mine_names)}, intro-{fname}.json implies {sorted(by_intro & mine_names)}')
            # depends -> reachable from the prereq aggregate
            agg = 'meson-benchmark-prereq' if kind == 'benchmark' else 'meson-test-prereq'
            edges, _ = m.closure([agg])
            tid = {t['id']: t for t in targets}
            for n, it in intro.items():
                for dep in it['depends']:
                    tt = tid.get(dep)
                    if tt is None:
                        return Failure(f'{fname}/depends-unknown-id', c, f'intro-{fname}.json {n!r} depends on unknown target id {dep!r}')
                    e = m.edge_for(rel_build(tt['filename'][0], bld))
                    if e is None or id(e) not in edges:
                        return Failure(f'{fname}/depends-not-prereq', c, f'intro-{fname}.json {n!r} depends on {dep!r} which {agg} does not reach')
        # ---- install ------------------------------------------------------------
        installed = load('installed')
        plan = load('install_plan')
        for e in m.edges:
            if e.is_phony or e.rule.name in ('REGENERATE_BUILD',):
                continue
            for o in e.all_outs:
                if o.startswith('meson-internal__'):
                    continue
                p = os.path.join(bld, o)
                if not os.path.lexists(p):
                    os.makedirs(os.path.dirname(p), exist_ok=True)
                    with open(p, 'w') as fh:
                        fh.write('placeholder ' + o + '\n')
        for lnk in m.producer.get('meson-implicit-outs').ins if m.producer.get('meson-implicit-outs') else []:
            pass

        def tree(root: str) -> T.Set[str]:
            res = set()
            for dp, dn, fn in os.walk(root):
                for f in fn:
                    res.add('/' + os.path.relpath(os.path.join(dp, f), root))
                for d in dn:
                    if os.path.islink(os.path.join(dp, d)):
                        res.add('/' + os.path.relpath(os.path.join(dp, d), root))
            return res

        def expected_from_installed() -> T.Set[str]:
            res = set()
            for srcp, dst in installed.items():
                sp = srcp if os.path.isabs(srcp) else None
                if sp and os.path.isdir(sp) and not os.path.islink(sp):
                    continue   # install_subdir: handled through the plan below
                res.add(os.path.normpath(dst))
            return res

        ir = run_sub(['install', '--no-rebuild', '-C', bld, '--destdir', dest], timeout=120)
        if ir.rc != 0:
            return Failure('install/fails', c, f'meson install failed (exit {ir.rc}):\n{ir.text[-1200:]}')
        got = tree(dest)
        exp = expected_from_installed()
        subdir_roots = [os.path.normpath(dst) for srcp, dst in installed.items() if os.path.isabs(srcp) and os.path.isdir(srcp) and not os.path.islink(srcp)]
        extra = {g for g in got - exp if not any(g == r or g.startswith(r + '/') for r in subdir_roots)}
        missing = exp - got
        if missing:
            return Failure('installed/listed-but-not-installed', c, f'intro-installed.json promises {sorted(missing)[:6]} which `meson install` did not create\n{ir.out[-600:]}')
        if extra:
            return Failure('installed/installed-but-not-listed', c, f'`meson install` created {sorted(extra)[:6]} which intro-installed.json does not list')
        for rroot in subdir_roots:
            if not any(g.startswith(rroot + '/') for g in got):
                return Failure('installed/subdir-not-installed', c, f'intro-installed.json lists the directory {rroot} but nothing was installed below it')
        # per-tag agreement with the install plan
        optmap = {o['name']: o['value'] for o in load('buildoptions')}

        def expand(d: str) -> str:
            out = d
            if not out.startswith(('{', '/')):
                out = '{prefix}/' + out
            for _ in range(4):
                for k in ('prefix', 'bindir', 'libdir', 'datadir', 'includedir', 'mandir', 'infodir', 'localedir', 'sysconfdir', 'localstatedir',
                          'sharedstatedir', 'libexecdir', 'sbindir'):
                    v = str(optmap.get(k, ''))
                    if k != 'prefix' and not os.path.isabs(v):
                        v = os.path.join(str(optmap['prefix']), v)
                    out = out.replace('{' + k + '}', v)
                out = out.replace('{libdir_shared}', os.path.join(str(optmap['prefix']), str(optmap['libdir']))) \
                         .replace('{libdir_static}', os.path.join(str(optmap['prefix']), str(optmap['libdir'])))
            return os.path.normpath(out)
        tags: T.Dict[T.Optional[str], T.Set[str]] = {}
        dirs_by_tag: T.Dict[T.Optional[str], T.Set[str]] = {}
        for section, entries in plan.items():
            for srcp, ent in entries.items():
                d = expand(ent['destination'])
                if '{' in d:
                    continue
                if section == 'install_subdirs':
                    dirs_by_tag.setdefault(ent['tag'], set()).add(d)
                else:
                    tags.setdefault(ent['tag'], set()).add(d)
        for tag in sorted(x for x in set(tags) | set(dirs_by_tag) if x):
            shutil.rmtree(dest, ignore_errors=True)
            ir = run_sub(['install', '--no-rebuild', '-C', bld, '--destdir', dest, '--tags', tag], timeout=120)
            if ir.rc != 0:
                return Failure('install/fails-with-tags', c, f'meson install --tags {tag} failed:\n{ir.text[-800:]}')
            got = {g for g in tree(dest)}
            roots = dirs_by_tag.get(tag, set())
            files_got = {g for g in got if not any(g.startswith(r + '/') for r in roots)
                         and not (os.path.islink(dest + g) and g not in tags.get(tag, set()))}   # library alias symlinks are not plan entries
            # symlinks/aliases of versioned libraries are listed separately in the plan only for targets; accept listed set exactly
            want = tags.get(tag, set())
            if files_got != want:
                return Failure('install_plan/tag-set-differs', c,
                               f'`meson install --tags {tag}` created {sorted(files_got)} but intro-install_plan.json assigns tag {tag!r} to {sorted(want)}')
        # an installed subdirectory: the destination the plan names is where the CONTENT of the source directory lands
        if plan.get('install_subdirs'):
            shutil.rmtree(dest, ignore_errors=True)
            ir = run_sub(['install', '--no-rebuild', '-C', bld, '--destdir', dest], timeout=120)
            if ir.rc != 0:
                return Failure('install/fails', c, f'meson install failed (exit {ir.rc}):\n{ir.text[-1200:]}')
            for srcp, ent in plan['install_subdirs'].items():
                d = expand(ent['destination'])
                if '{' in d or not os.path.isdir(srcp):
                    continue
                lost = [n for n in sorted(os.listdir(srcp)) if n != 'skip.me' and not os.path.lexists(dest + d + '/' + n)]
                if lost:
                    return Failure('install_plan/subdir-destination-differs', c,
                                   f'intro-install_plan.json gives the directory {srcp!r} the destination {ent["destination"]!r} ({d}), but after '
                                   f'`meson install` its entries {lost} are not there; installed tree: {sorted(tree(dest))[:12]}')
        # ---- the same relations after a second configuration of the same directory -------------------------
        # (the intro files describe the build "that was actually generated" - also when it was generated by a reconfigure:
        # every build-definition file is read again then, and has to be listed again)
        rr = run_sub(['setup', '--reconfigure', bld, src], timeout=300)
        if rr.rc != 0:
            return Failure('reconfigure/fails', c, f'meson setup --reconfigure failed on an unchanged project (exit {rr.rc}):\n{rr.text[-1200:]}')
        bs2 = sorted(os.path.normpath(x) for x in load('buildsystem_files'))
        bs2 = [x for x in bs2 if x not in cfg_inputs]
        if bs2 != wantbs:
            return Failure('buildsystem_files/differs-after-reconfigure', c,
                           f'after `meson setup --reconfigure` intro-buildsystem_files.json lists {bs2}\n but the build definition consists of {wantbs} '
                           f'(missing: {sorted(set(wantbs) - set(bs2))}, extra: {sorted(set(bs2) - set(wantbs))})')
        for name, before in (('installed', installed), ('install_plan', plan)):
            if load(name) != before:
                return Failure(f'{name}/changes-on-reconfigure', c, f'intro-{name}.json differs after an unchanged `meson setup --reconfigure`')
        if ev is not None:
            nt = (any(t.get('gen_sources') or t.get('gen_headers') or t.get('generator') for t in model['targets']) or bool(model.get('subproject'))) \
                and bool(c['tests']) and bool(installed)
            ev.case(c, nontrivial=nt, cls=f'project/{model["options"]["layout"]}/unity={model["options"]["unity"]}',
                    sample={'targets': [(t['kind'], t['name']) for t in model['targets']], 'tests': [t['name'] for t in c['tests']],
                            'opts': c['opts'], 'installed': len(installed)})
        return None
    finally:
        shutil.rmtree(workdir, ignore_errors=True)


def _shard(shard: T.Tuple[int, int], ev: Evidence, fails: T.List[Failure]) -> None:
    seed, n = shard
    work = make_scratch(f'c15-{seed}')

    def check(c: dict) -> T.Optional[Failure]:
        f = check_case(c, os.path.join(work, 'case'), ev)
        if f is not None:
            f2 = check_case(c, os.path.join(work, 'case'), None, sub=True)
            if f2 is None:
                ev.inproc_only += 1
            return f2
        return None
    try:
        campaign(cases(), check, n, seed, fails)
    finally:
        shutil.rmtree(work, ignore_errors=True)


# corpus projects that every quick run takes (each once reached a relation the generated projects do not: compile-only
# targets, programs overridden by a subproject, failing optional subprojects, env.append(), install_subdir of nothing,
# one source installed twice - the last two keep the recorded finding alive)
CORPUS_FIXED = [
    'test cases/common/259 preprocess', 'test cases/common/267 default_options in find_program', 'test cases/common/88 dep fallback',
    'test cases/common/196 subproject with features', 'test cases/common/41 test args', 'test cases/common/59 install subdir',
    'test cases/common/9 header install', 'test cases/common/45 custom install dirs', 'test cases/common/153 wrap file should not failed',
    'test cases/common/105 generatorcustom', 'test cases/common/117 shared module', 'test cases/common/145 recursive linking',
    'test cases/common/98 subproject subdir', 'test cases/common/8 install', 'test cases/common/186 test depends',
    'test cases/common/13 pch', 'test cases/rust/22 cargo subproject', 'test cases/rust/33 cargo workspace',
    'test cases/java/1 basic', 'test cases/java/7 linking',       # a jar() as test program
]


# ---------------------------------------------------------------------------------------------------------
# per-machine options in a cross build: intro-buildoptions.json lists `build.<opt>` next to `<opt>`; each must be the value
# get_option() returned for THAT machine

XCROSS_INI = ("[binaries]\nc = 'cc'\nar = 'ar'\nstrip = 'strip'\npkg-config = 'pkg-config'\n\n"
              "[host_machine]\nsystem = 'linux'\ncpu_family = 'x86_64'\ncpu = 'x86_64'\nendian = 'little'\n")
XCROSS_OPTS = {'pkg_config_path': ['/h/pc', '/h/a,/h/b', ''], 'cmake_prefix_path': ['/h/cm', '/h/x,/h/y'],
               'c_args': ['-DHOSTSIDE', '-DH1,-DH2', ''], 'c_link_args': ['-Wl,--as-needed', ''], 'c_std': ['c99', 'gnu11', 'none']}


def cross_options_case(seed: int) -> dict:
    import random
    rnd = random.Random(f'c15-cross:{seed}')
    vals: T.Dict[str, str] = {}
    for o, pool in sorted(XCROSS_OPTS.items()):
        if rnd.random() < 0.8:
            vals[o] = rnd.choice(pool)
        if rnd.random() < 0.8:
            vals['build.' + o] = rnd.choice([v.replace('/h/', '/b/').replace('HOSTSIDE', 'BUILDSIDE').replace('-DH', '-DB') for v in pool] + ['c11'] * (o == 'c_std'))
    return {'cross_options': vals, 'lang': rnd.random() < 0.7}


def check_cross_options(c: dict, workdir: str, ev: T.Optional[Evidence], sub: bool = False) -> T.Optional[Failure]:
    shutil.rmtree(workdir, ignore_errors=True)
    src, bld = os.path.join(workdir, 'src'), os.path.join(workdir, 'bld')
    vals = {k: v for k, v in c['cross_options'].items() if c['lang'] or not k.split('.')[-1].startswith('c_')}
    names = sorted({o for o in XCROSS_OPTS if c['lang'] or not o.startswith('c_')})
    body = "project('xopts'" + (", 'c'" if c['lang'] else '') + ")\n"
    if c['lang']:
        body += "add_languages('c', native: true)\n"
    for o in names:
        for k in (o, 'build.' + o):
            body += f"message('OPT:{k}=@0@'.format(get_option('{k}')))\n"
    try:
        write_tree(src, {'meson.build': body, 'x.ini': XCROSS_INI})
        args = ['setup', '--cross-file', os.path.join(src, 'x.ini')] + [f'-D{k}={v}' for k, v in sorted(vals.items())] + [bld, src]
        r = (run_sub if sub else run_inproc)(args)
        if r.rc != 0:
            if r.unhandled:
                return Failure('setup/unhandled-exception', c, r.text[-1500:])
            return Failure('setup/rejected', c, f'cross-options project failed to configure ({" ".join(args[1:-2])}):\n{r.text[-1200:]}')
        with open(os.path.join(bld, 'meson-info', 'intro-buildoptions.json'), encoding='utf-8') as fh:
            bo = {o['name']: o['value'] for o in json.load(fh)}
        msgs = dict(x[4:].split('=', 1) for x in r.messages() if x.startswith('OPT:'))
        if len(msgs) != 2 * len(names):
            raise HarnessError(f'cross-options project printed {len(msgs)} OPT messages, expected {2 * len(names)}')
        for k, shown in sorted(msgs.items()):
            if k not in bo:
                return Failure('buildoptions/missing', c, f'cross build: intro-buildoptions.json has no entry for {k!r} although get_option({k!r}) returned {shown!r}')
            v = bo[k]
            rv = '[' + ', '.join("'" + x + "'" for x in v) + ']' if isinstance(v, list) else ('true' if v is True else 'false' if v is False else str(v))
            if rv != shown:
                return Failure('buildoptions/value-differs:per-machine', c,
                               f'cross build ({" ".join(a for a in args if a.startswith("-D"))}): intro-buildoptions.json {k}={v!r} but get_option({k!r}) returned {shown!r}')
        if ev is not None:
            differing = sum(1 for o in names if msgs.get(o) != msgs.get('build.' + o))
            ev.case(c, nontrivial=differing >= 1, cls='cross-options')
        return None
    finally:
        shutil.rmtree(workdir, ignore_errors=True)


def _cross_shard(seeds: T.List[int], ev: Evidence, fails: T.List[Failure]) -> None:
    work = make_scratch('c15-cross')
    sigs: T.Set[str] = set()
    try:
        for s_ in seeds:
            c = cross_options_case(s_)
            f = check_cross_options(c, os.path.join(work, 'case'), ev)
            if f is not None:
                f = check_cross_options(c, os.path.join(work, 'case'), None, sub=True)
            if f is not None and f.sig not in sigs:
                sigs.add(f.sig)
                fails.append(f)
    finally:
        shutil.rmtree(work, ignore_errors=True)


def _corpus_shard(shard: T.List[T.Tuple[str, T.Tuple[str, ...]]], ev: Evidence, fails: T.List[Failure]) -> None:
    work = make_scratch('c15-corpus')
    sigs: T.Set[str] = set()
    try:
        for pth in shard:
            case = {'corpus': pth[0], 'args': list(pth[1])} if pth[1] else {'corpus': pth[0]}
            f = c15_corpus.check_corpus(case, os.path.join(work, 'case'), ev)
            if f is not None and f.sig not in sigs:
                sigs.add(f.sig)
                fails.append(f)
    finally:
        shutil.rmtree(work, ignore_errors=True)


def _any_shard(shard: T.Tuple[str, T.Any], ev: Evidence, fails: T.List[Failure]) -> None:
    if shard[0] == 'gen':
        _shard(shard[1], ev, fails)
    elif shard[0] == 'cross':
        _cross_shard(shard[1], ev, fails)
    else:
        _corpus_shard(shard[1], ev, fails)


def run(ctx: Ctx) -> None:
    import random
    per = ctx.n(7, 90)
    projs = c15_corpus.corpus_projects()
    variants: T.List[T.Tuple[str, ...]] = [(), ('--layout=flat',), ('-Ddefault_library=both', '-Dbuildtype=release', '-Db_ndebug=true')]
    if ctx.quick:
        fixed = [p for p in CORPUS_FIXED if p in projs]
        rest = [p for p in projs if p not in fixed]
        rnd = random.Random(f'c15-corpus:{ctx.seed}')
        rnd.shuffle(rest)
        chosen = [(p, ()) for p in fixed] + [(p, rnd.choice(variants)) for p in rest[:16]]
    else:
        chosen = [(p, v) for p in projs for v in variants]
    ctx.ev.extra['corpus_projects_taken'] = len(chosen)
    nsh = 16 if ctx.quick else 48
    corpus = [('corpus', chosen[i::nsh]) for i in range(nsh) if chosen[i::nsh]]
    ncross = ctx.n(16, 160)
    cross = [('cross', [ctx.seed * 1000 + i for i in range(k, ncross, 8)]) for k in range(8)]
    pmap(ctx, _any_shard, [('gen', (s, per)) for s in shard_seeds(ctx, 16)] + corpus + cross)


def replay(ctx: Ctx, case: T.Any, doc: dict) -> T.Optional[Failure]:
    if isinstance(case, dict) and 'cross_options' in case:
        return check_cross_options(case, os.path.join(ctx.scratch, 'replay'), None, sub=True)
    if isinstance(case, dict) and 'corpus' in case:
        return c15_corpus.check_corpus(case, os.path.join(ctx.scratch, 'replay'), None)
    return check_case(case, os.path.join(ctx.scratch, 'replay'), None, sub=True)
