"""C03 - Commands receive exactly the arguments the build definition specifies.

Generated argument strings are placed in every command position of a generated project; the real
build.ninja is expanded by the independent Ninja implementation and executed by /bin/sh (or the
pickled wrapper / `meson test` for real), with a dumper program recording the argv / env / stdin it
actually receives.  The expectation is the build definition's own list after the four documented
rewrites, nothing else.
"""
from __future__ import annotations

import glob
import json
import os
import re
import shutil
import typing as T

from hypothesis import strategies as st

from harness import refninja
from harness.core import Ctx, Evidence, Failure, HarnessError, campaign, make_scratch, pmap, shard_seeds, fp
from harness.mesondrv import run_inproc, run_sub, base_env, write_tree, PY

LEVEL = 'exploration'
RULE = ('Hypothesis argument strings (printable ASCII, TAB, LF where the position allows, non-ASCII, biased to a dictionary of shell/ninja/rsp '
        'metacharacters: quotes, $, $$, ${x}, `, ;, &, |, *, ?, [], {}, ~, !, #, %, <, >, @, backslashes, leading/trailing blanks, empty string) in '
        'every position of one generated project: custom_target plain / capture / feed / env / newline (pickled wrapper), `&&` separator, run_target, '
        'generator arguments, test() args and env, per-target c_args (incl. -D with backslashes) and link_args, add_project_arguments, '
        'add_global_arguments, placeholders (@CURRENT_SOURCE_DIR@, @SOURCE_ROOT@, @BUILD_ROOT@, @OUTDIR@, @PRIVATE_DIR@) embedded in longer words of custom_target / run_target commands (the text around the placeholder arrives unchanged), project/global compile and link arguments given to c and cpp in one call and then per language (each step of each language receives exactly its own); with and without response files (MESON_RSP_THRESHOLD=0). Actual argv = what a dumper program records when the '
        'build.ninja statement is expanded by harness/refninja.py and run by /bin/sh, or by real `meson test`. non-trivial = the position holds >=1 '
        'argument with a shell/ninja/rsp metacharacter; distinct by (position, mode, arguments).')
ASSUMPTIONS = [
    'ninja de-quoting is done by harness/refninja.py ($-escapes, rule/build variable scoping, rspfile_content) and shell de-quoting by the real /bin/sh',
    'gcc response files are parsed by a reference implementation of the documented @file rules (whitespace separated, single/double quotes, backslash escapes any character)',
    'generator() arguments: both the unchanged string and the backslash->slash rewritten string are accepted (the property names the rewrite for custom-target commands only)',
    'a newline inside a compile/link argument may be rejected at configure time with an error instead of being delivered',
]

TROUBLE = ["'", '"', '\\', '$', '$$', '${x}', '$(id)', '`id`', ';', '&', '&&x', '|', '*', '?', '[a]', '{a,b}', '~', '!', '#', '# c', '%', '^',
           '<', '>', '=', ':', '@', '@@', 'a@b', '-D\\', 'a b', ' a', 'a ', '  ', '', '\t', "it's", 'say "hi"', '\\n', '\\\\', 'a\\b', '%s', '$out', '$in',
           'é', '漢', '\U0001f600', 'é', '-', '--', '-x=y', '--help', '-h', '--capture', '--c', '--feed=x', '--f', '--unpickle', '--u=1', 'a;b', 'a|b', '$ ', ' $', "'$x'", '"$x"', '\\"', "\\'", '(', ')', '()']
TEMPLATE_RE = re.compile(r'@[A-Z_]+[0-9]*@')
META = set('\'"\\$`;&|*?[]{}~!#%^<>=: \t\n()@')

DUMP_PY = r'''#!/usr/bin/env python3
import sys, os, json
argv = sys.argv[1:]
if argv and argv[0].startswith('opts:'):
    # single-argument form (no `--` anywhere in the command line: nothing shields the payload from an option parser
    # of a wrapper that sits in front of this program)
    o = {'--' + kv.split('=', 1)[0]: kv.split('=', 1)[1] for kv in argv[0][5:].split('|')}
    payload = argv[1:]
else:
    i = argv.index('--')
    opts, payload = argv[:i], argv[i + 1:]
    o = dict(zip(opts[0::2], opts[1::2])) if len(opts) % 2 == 0 else {}
    if len(opts) % 2:
        raise SystemExit('dump.py: bad options %r' % (opts,))
rec = {'id': o.get('--id'), 'argv': payload, 'env': {k: v for k, v in os.environ.items() if k.startswith('VERIF_E')}, 'cwd': os.getcwd()}
if o.get('--stdin') == 'yes':
    rec['stdin'] = sys.stdin.buffer.read().hex()
rsp = {}
for a in payload:
    if a.startswith('@') and os.path.isfile(a[1:]):
        with open(a[1:], 'rb') as f:
            rsp[a] = f.read().decode('utf-8', 'surrogateescape')
rec['rsp'] = rsp
os.makedirs(o['--log'], exist_ok=True)
with open(os.path.join(o['--log'], '%s.%d.json' % (o.get('--id'), os.getpid())), 'w') as f:
    json.dump(rec, f)
if o.get('--touch'):
    with open(o['--touch'], 'w') as f:
        f.write('/* generated */\n')
if o.get('--stdout') == 'yes':
    sys.stdout.buffer.write(b'CAP:' + json.dumps(payload).encode() + b'\r\n\x00\xff\n')
    sys.stdout.buffer.flush()
'''


def mq(s: str) -> str:
    """meson '...' literal denoting exactly s"""
    out = []
    for ch in s:
        if ch == '\\':
            out.append('\\\\')
        elif ch == "'":
            out.append("\\'")
        elif ch == '\n':
            out.append('\\n')
        elif ch == '\t':
            out.append('\\t')
        elif ch == '\r':
            out.append('\\r')
        elif ord(ch) < 32 or ord(ch) == 127:
            out.append('\\x%02x' % ord(ch))
        else:
            out.append(ch)
    return "'" + ''.join(out) + "'"


def mlist(items: T.Sequence[str]) -> str:
    return ', '.join(mq(x) for x in items)


def arg_text(newline: bool) -> T.Any:
    alpha = [chr(c) for c in range(32, 127)] + ['\t', 'é', '漢', '\U0001f600', '́'] + (['\n'] if newline else [])
    base = st.one_of(st.sampled_from(TROUBLE), st.text(alphabet=alpha, max_size=12),
                     st.lists(st.sampled_from(TROUBLE), min_size=2, max_size=3).map(''.join))
    if newline:
        base = st.one_of(base, st.sampled_from(['a\nb', '\n', 'x\n', "q'\n\"z"]))

    def clean(s: str) -> str:
        s = s.replace('\x00', '')
        if not newline:
            s = s.replace('\n', ' ')
        while TEMPLATE_RE.search(s):
            s = TEMPLATE_RE.sub(lambda m: m.group(0)[:-1] + 'x@', s, count=1)
        return s
    return base.map(clean)


def args_list(newline: bool = False, lo: int = 1, hi: int = 5) -> T.Any:
    return st.lists(arg_text(newline), min_size=lo, max_size=hi)


@st.composite
def cases(draw: T.Any) -> dict:
    def no_sep(xs: T.List[str]) -> T.List[str]:
        return [('&& ' if x == '&&' else x) for x in xs]
    c = {
        'rsp': draw(st.booleans()),
        'ct_plain': no_sep(draw(args_list())),
        'ct_plain2': no_sep(draw(args_list(hi=3))),
        'use_andand': draw(st.booleans()),
        'ct_cap': no_sep(draw(args_list())),
        'ct_feed': no_sep(draw(args_list(hi=3))),
        'ct_env_args': no_sep(draw(args_list(hi=3))),
        'ct_env': draw(st.lists(arg_text(False), min_size=1, max_size=3)),
        'ct_nl': draw(args_list(newline=True)) + ['a\nb'],
        'rt': no_sep(draw(args_list())),
        'rt_tw': no_sep(draw(args_list(lo=2, hi=3))),
        'gen': draw(args_list(hi=4)),
        'test': draw(args_list(newline=True)),
        'test_env': draw(st.lists(arg_text(True), min_size=1, max_size=3)),
        'test2': draw(args_list(newline=True, hi=3)),
        'c_args': draw(args_list(hi=4)),
        'c_defs': draw(args_list(hi=3)),
        'link_args': draw(args_list(hi=3)),
        'proj_args': draw(args_list(hi=3)),
        'glob_args': draw(args_list(hi=3)),
        'nl_in_cargs': draw(st.sampled_from([False] * 11 + [True])),
        'gen_extra': draw(args_list(hi=3)),
        'bl': [draw(args_list(lo=1, hi=2)), draw(args_list(lo=1, hi=2)), draw(args_list(lo=1, hi=2))],
        'twotok': draw(st.lists(st.sampled_from(['x', 'A_1', 'v=1', 'inc dir', 'q']), min_size=2, max_size=4)),
    }
    # placeholders embedded in longer words: only the placeholder itself is rewritten, the text around it arrives byte for byte
    junk = st.sampled_from(['', '//', 'a/../', 'file://', './', 'x//y/', '--opt=', 's|^', '/./z', '/', '//t//', '/||;s|//|/|g', '/../up/', ' '])
    c['tpl'] = [[draw(junk), draw(st.sampled_from(['CURRENT_SOURCE_DIR', 'SOURCE_ROOT', 'BUILD_ROOT', 'OUTDIR', 'PRIVATE_DIR'])), draw(junk)]
                for _ in range(draw(st.integers(2, 4)))]
    if draw(st.booleans()):
        # a second language: arguments given to several languages in one call, then more for one language only
        c['ml'] = {'both': draw(args_list(lo=1, hi=2)), 'cpp': draw(args_list(lo=1, hi=2)), 'c': draw(args_list(lo=1, hi=2)),
                   'lboth': draw(args_list(lo=1, hi=2)), 'lcpp': draw(args_list(lo=1, hi=2)), 'lc': draw(args_list(lo=1, hi=2)),
                   'glob': draw(st.booleans())}
    return c


def compile_arg_lists(c: dict) -> T.Dict[str, T.List[str]]:
    """The literal compile/link arguments written into the build definition (unique prefixes so that the C13
    de-duplication/reordering contract never applies)."""
    d = {
        'c_args': [f'-fxa{i}={a}' for i, a in enumerate(c['c_args'])] + [f'-DTA{i}={a}' for i, a in enumerate(c['c_defs'])],
        'link_args': [f'-fxl{i}={a}' for i, a in enumerate(c['link_args'])],
        'proj_args': [f'-fxp{i}={a}' for i, a in enumerate(c['proj_args'])] + [f'-DPA{i}={a}' for i, a in enumerate(c['proj_args'][:1])],
        'glob_args': [f'-fxg{i}={a}' for i, a in enumerate(c['glob_args'])],
    }
    if c.get('nl_in_cargs'):
        d['c_args'].append('-fxn=a\nb')
    return d


def bl_args(c: dict) -> T.Tuple[T.List[str], T.List[str], T.List[str]]:
    """(c_args, c_static_args, c_shared_args) of the both_libraries() target; unique prefixes per list"""
    com, sta, sha = c['bl']
    return ([f'-fxbc{i}={a}' for i, a in enumerate(com)], [f'-fxbs{i}={a}' for i, a in enumerate(sta)],
            [f'-fxbh{i}={a}' for i, a in enumerate(sha)])


def ml_args(c: dict) -> T.Dict[str, T.List[str]]:
    """per-language project (or global) compile/link arguments of the two-language part; unique prefixes per list"""
    ml = c['ml']
    return {k: [f'-fxm{k}{i}={a}' for i, a in enumerate(ml[k])] for k in ('both', 'cpp', 'c', 'lboth', 'lcpp', 'lc')}


def twotok_pairs(c: dict) -> T.Dict[str, T.List[T.Tuple[str, str]]]:
    """the two-token spelling of an option (-D NAME, -U NAME, -isystem DIR), used more than once per target and at two
    levels: option and operand must stay together, in order, every time"""
    tt = c.get('twotok') or []
    return {'c_args': [(['-D', '-U', '-isystem'][i % 3], f'TT{i}{a}') for i, a in enumerate(tt)],
            'proj_args': [('-D', 'TTP0'), ('-isystem', 'ttpinc'), ('-D', 'TTP1')] if tt else []}


def twin_lists(c: dict) -> T.Tuple[T.List[str], T.List[str]]:
    a = list(c['rt_tw']) + ['a\nb']
    b = [a[0] + ' ' + a[1]] + a[2:]
    return a, b


def build_files(c: dict, logdir: str) -> T.Dict[str, T.Union[str, bytes]]:
    ca = compile_arg_lists(c)
    L = mq(logdir)
    lines = ["project('argv', 'c', default_options: ['warning_level=0'])" if not c.get('ml') else
             "project('argv', 'c', 'cpp', default_options: ['warning_level=0'])",
             "dump = find_program('dump.py')",
             f"add_global_arguments({mlist(ca['glob_args'])}, language: 'c')",
             f"add_project_arguments({mlist(ca['proj_args'] + [t for pr in twotok_pairs(c)['proj_args'] for t in pr])}, language: 'c')"]
    if c.get('ml'):
        m = ml_args(c)
        fn = 'add_global' if c['ml']['glob'] else 'add_project'
        lines += [f"{fn}_arguments({mlist(m['both'])}, language: ['c', 'cpp'])",
                  f"{fn}_arguments({mlist(m['cpp'])}, language: 'cpp')",
                  f"{fn}_arguments({mlist(m['c'])}, language: 'c')",
                  f"{fn}_link_arguments({mlist(m['lboth'])}, language: ['cpp', 'c'])",
                  f"{fn}_link_arguments({mlist(m['lc'])}, language: 'c')",
                  f"{fn}_link_arguments({mlist(m['lcpp'])}, language: 'cpp')",
                  "executable('epp', 'mainpp.cpp')"]
    plain = f"[dump, '--log', {L}, '--id', 'ct_plain', '--touch', '@OUTPUT@', '--', {mlist(c['ct_plain'])}"
    if c['use_andand']:
        plain += f", '&&', dump, '--log', {L}, '--id', 'ct_plain2', '--', {mlist(c['ct_plain2'])}"
    plain += ']'
    lines.append(f"custom_target('ct_plain', output: 'ct_plain.out', command: {plain})")
    # capture / feed without env or newline: meson runs these through `meson --internal exe --capture/--feed ... -- cmd`
    # (not pickled); the dumper gets its own options in ONE argument so that the user's arguments follow directly
    lines.append(f"custom_target('ct_cap', output: 'ct_cap.out', capture: true, command: [dump, {mq('opts:log=' + logdir + '|id=ct_cap|stdout=yes')}, {mlist(c['ct_cap'])}])")
    lines.append(f"custom_target('ct_feed', input: 'feed.bin', output: 'ct_feed.out', feed: true, command: [dump, {mq('opts:log=' + logdir + '|id=ct_feed|stdin=yes|touch=')} + '@OUTPUT0@', {mlist(c['ct_feed'])}])")
    envd = ', '.join(f"'VERIF_E{i}': {mq(v)}" for i, v in enumerate(c['ct_env']))
    lines.append(f"custom_target('ct_env', output: 'ct_env.out', env: {{{envd}}}, command: [dump, '--log', {L}, '--id', 'ct_env', '--touch', '@OUTPUT@', '--', {mlist(c['ct_env_args'])}])")
    lines.append(f"custom_target('ct_nl', output: 'ct_nl.out', command: [dump, '--log', {L}, '--id', 'ct_nl', '--touch', '@OUTPUT@', '--', {mlist(c['ct_nl'])}])")
    if c.get('tpl'):
        targs = [pre + '@' + name + '@' + suf for pre, name, suf in c['tpl']]
        lines.append(f"custom_target('ct_tpl', output: 'ct_tpl.out', command: [dump, '--log', {L}, '--id', 'ct_tpl', '--touch', '@OUTPUT@', '--', {mlist(targs)}])")
        rargs = [pre + '@' + name + '@' + suf for pre, name, suf in c['tpl'] if name in ('CURRENT_SOURCE_DIR', 'SOURCE_ROOT', 'BUILD_ROOT')]
        if rargs:
            lines.append(f"run_target('rt_tpl', command: [dump, '--log', {L}, '--id', 'rt_tpl', '--', {mlist(rargs)}])")
    lines.append(f"run_target('rt', command: [dump, '--log', {L}, '--id', 'rt', '--', {mlist(c['rt'])}])")
    if c.get('rt_tw'):
        # twin commands: same program, same options, argument lists that differ only in where the words are split;
        # both go through the pickled wrapper (newline argument), which names its data file by a digest of the command
        a, b = twin_lists(c)
        lines.append(f"run_target('rt_tw1', command: [dump, '--log', {L}, '--id', 'rt_tw', '--', {mlist(a)}])")
        lines.append(f"run_target('rt_tw2', command: [dump, '--log', {L}, '--id', 'rt_tw', '--', {mlist(b)}])")
    if c.get('gen_extra') is not None:
        # per-call extra arguments of a generator (@EXTRA_ARGS@): user strings, delivered as given
        lines.append(f"g = generator(dump, output: '@BASENAME@.h', arguments: ['--log', {L}, '--id', 'gen', '--touch', '@OUTPUT@', '--', {mlist(c['gen'])}, '--extra', '@EXTRA_ARGS@'])")
        proc = f"g.process('gin.txt', extra_args: [{mlist(c['gen_extra'])}])"
    else:
        lines.append(f"g = generator(dump, output: '@BASENAME@.h', arguments: ['--log', {L}, '--id', 'gen', '--touch', '@OUTPUT@', '--', {mlist(c['gen'])}])")
        proc = "g.process('gin.txt')"
    if c.get('bl'):
        com, sta, sha = bl_args(c)
        lines.append(f"both_libraries('bl', 'blsrc.c', c_args: [{mlist(com)}], c_static_args: [{mlist(sta)}], c_shared_args: [{mlist(sha)}])")
    lines.append(f"executable('e', 'main.c', {proc}, c_args: [{mlist(ca['c_args'] + [t for pr in twotok_pairs(c)['c_args'] for t in pr])}], link_args: [{mlist(ca['link_args'])}])")
    tenv = ', '.join(f"'VERIF_E{i}': {mq(v)}" for i, v in enumerate(c['test_env']))
    lines.append(f"test('t', dump, args: ['--log', {L}, '--id', 'test', '--', {mlist(c['test'])}], env: {{{tenv}}})")
    if 'test2' in c:
        # a second test, and a test setup with an exe_wrapper: the same two tests are run again under `--setup wrapped`
        # and under `--wrapper`, where each must still receive exactly its own arguments
        lines.append(f"test('t2', dump, args: ['--log', {L}, '--id', 'test2', '--', {mlist(c['test2'])}])")
        lines.append("add_test_setup('wrapped', exe_wrapper: [find_program('env'), 'VERIF_EW=in setup'])")
    return {'meson.build': '\n'.join(lines) + '\n', 'dump.py': DUMP_PY, 'main.c': 'int main(void) { return 0; }\n', 'mainpp.cpp': 'int main() { return 0; }\n', 'gin.txt': 'x\n',
            'blsrc.c': 'int bl(void) { return 0; }\n',
            'feed.bin': b'feed\r\n\x00\xff line2\n'}


def rsp_split(s: str) -> T.List[str]:
    """GCC @file: options separated by whitespace; quotes group; backslash includes any following character."""
    out: T.List[str] = []
    cur: T.List[str] = []
    started = False
    quote = ''
    i = 0
    while i < len(s):
        ch = s[i]
        if ch == '\\' and i + 1 < len(s):
            cur.append(s[i + 1])
            started = True
            i += 2
            continue
        if quote:
            if ch == quote:
                quote = ''
            else:
                cur.append(ch)
            i += 1
            continue
        if ch in '\'"':
            quote = ch
            started = True
        elif ch in ' \t\n\r\f\v':
            if started:
                out.append(''.join(cur))
                cur, started = [], False
        else:
            cur.append(ch)
            started = True
        i += 1
    if started:
        out.append(''.join(cur))
    return out


def selftest(ctx: Ctx) -> None:
    try:
        refninja.selftest()
    except AssertionError as e:
        raise HarnessError(f'refninja self-test failed: {e}')
    if rsp_split('a "b c" \'d e\' f\\ g \\"h "" x\\\\y') != ['a', 'b c', 'd e', 'f g', '"h', '', 'x\\y']:
        raise HarnessError('rsp_split self-test failed')
    if mq("a'b\\c\n") != "'a\\'b\\\\c\\n'":
        raise HarnessError('mq self-test failed')


def has_meta(xs: T.Iterable[str]) -> bool:
    return any((set(x) & META) or x == '' for x in xs)


def read_records(logdir: str, ident: str) -> T.List[dict]:
    recs = []
    for p in sorted(glob.glob(os.path.join(logdir, glob.escape(ident) + '.*.json'))):
        with open(p) as f:
            recs.append(json.load(f))
    return recs


def expand_rsp(rec: dict) -> T.List[str]:
    out: T.List[str] = []
    for a in rec['argv']:
        if a in rec.get('rsp', {}):
            out.extend(rsp_split(rec['rsp'][a]))
        else:
            out.append(a)
    return out


def in_order_once(expected: T.List[str], argv: T.List[str]) -> T.Optional[str]:
    pos = -1
    for x in expected:
        n = argv.count(x)
        if n != 1:
            return f'expected argument {x!r} occurs {n} times in the received argv'
        p = argv.index(x)
        if p < pos:
            return f'argument {x!r} arrives before an argument that the build definition lists earlier'
        pos = p
    return None


def check_case(c: dict, workdir: str, ev: T.Optional[Evidence], confirm_sub: bool = False) -> T.Optional[Failure]:
    shutil.rmtree(workdir, ignore_errors=True)
    src = os.path.join(workdir, 'src')
    bld = os.path.join(workdir, 'bld')
    logdir = os.path.join(workdir, 'log')
    os.makedirs(src)
    os.makedirs(logdir)
    try:
        write_tree(src, build_files(c, logdir))
        os.chmod(os.path.join(src, 'dump.py'), 0o755)
        senv = {'MESON_RSP_THRESHOLD': '0'} if c['rsp'] else {}
        # the rsp threshold is read once at import time of the backend module: rsp cases need a fresh process
        runner = run_sub if (confirm_sub or c['rsp']) else run_inproc
        r = runner(['setup', bld, src], env=senv)
        if r.unhandled:
            return Failure('setup/unhandled-exception', c, f'meson setup died with an internal error:\n{r.text[-1200:]}')
        if r.rc != 0:
            if c.get('nl_in_cargs') and 'newline' in r.text.lower():
                if ev is not None:
                    ev.case(('nl', c['c_args']), nontrivial=True, cls='compile-arg-newline-rejected')
                return None
            return Failure('setup/rejected', c, f'meson setup rejected a valid project (exit {r.rc}):\n{r.text[-1200:]}')
        try:
            m = refninja.parse_file(os.path.join(bld, 'build.ninja'))
        except refninja.NinjaError as e:
            return Failure('ninja/invalid-manifest', c, f'build.ninja is not a valid Ninja manifest, no command can receive its arguments: {e}')
        if c['rsp'] and not any(e.get('rspfile') for e in m.edges):
            raise HarnessError('MESON_RSP_THRESHOLD=0 did not produce any response-file rule')
        env = base_env()
        ca = compile_arg_lists(c)
        sl = lambda xs: [x.replace('\\', '/') for x in xs]  # noqa: E731

        def run_out(path: str, mutate: T.Optional[T.Callable[[str], str]] = None) -> T.Tuple[T.Optional[refninja.RunResult], str]:
            e = m.edge_for(path)
            if e is None:
                return None, f'no build statement produces {path!r}'
            if mutate is None:
                return refninja.run_edge(e, bld, env), ''
            # run with a substituted program: same expansion, different first word
            cmd = mutate(e.command())
            rsp = e.get('rspfile')
            if rsp:
                os.makedirs(os.path.dirname(os.path.join(bld, rsp)) or '.', exist_ok=True)
                with open(os.path.join(bld, rsp), 'w', encoding='utf-8', newline='') as f:
                    f.write(e.get('rspfile_content'))
            import subprocess
            p = subprocess.run(['/bin/sh', '-c', cmd], cwd=bld, env=env, stdout=subprocess.PIPE, stderr=subprocess.STDOUT, stdin=subprocess.DEVNULL)
            return refninja.RunResult(e, p.returncode, p.stdout.decode('utf-8', 'replace'), cmd), ''

        def position(name: str, ident: str, out: str, expected_lists: T.List[T.List[T.List[str]]], mode: str,
                     exact: bool = True, idents: T.Optional[T.List[str]] = None) -> T.Optional[Failure]:
            """expected_lists[k] = acceptable argv lists for record k"""
            rr, err = run_out(out)
            if rr is None:
                return Failure(f'{name}/no-statement', c, err)
            if rr.rc != 0:
                return Failure(f'{name}/command-fails', c, f'{name}: the generated command failed (exit {rr.rc}):\n$ {rr.command}\n{rr.output[-800:]}')
            for k, ident_k in enumerate(idents or [ident]):
                recs = read_records(logdir, ident_k)
                if len(recs) != 1:
                    return Failure(f'{name}/ran-{len(recs)}-times', c, f'{name}: expected exactly one execution of {ident_k}, saw {len(recs)}\n$ {rr.command}')
                got = recs[0]['argv']
                if got not in expected_lists[k]:
                    return Failure(f'{name}/argv-differs', c,
                                   f'{name} ({mode}): argv received by the command differs from the build definition\n expected: {expected_lists[k][0]!r}\n received: {got!r}\n$ {rr.command}')
            return None

        pos_results: T.List[T.Tuple[str, T.List[str]]] = []
        # custom_target plain (+ && separator)
        exp = [[sl(c['ct_plain'])]]
        ids = ['ct_plain']
        if c['use_andand']:
            exp.append([sl(c['ct_plain2'])])
            ids.append('ct_plain2')
        f = position('custom_target', 'ct_plain', 'ct_plain.out', exp, 'plain' + ('+&&' if c['use_andand'] else ''), idents=ids)
        if f:
            return f
        pos_results.append(('custom_target/plain', c['ct_plain']))
        # capture
        f = position('custom_target-capture', 'ct_cap', 'ct_cap.out', [[sl(c['ct_cap'])]], 'capture')
        if f:
            return f
        with open(os.path.join(bld, 'ct_cap.out'), 'rb') as fh:
            cap = fh.read()
        want = b'CAP:' + json.dumps(sl(c['ct_cap'])).encode() + b'\r\n\x00\xff\n'
        if cap != want:
            return Failure('custom_target-capture/stdout-differs', c, f'captured output differs from what the command wrote\n expected {want!r}\n got      {cap!r}')
        pos_results.append(('custom_target/capture', c['ct_cap']))
        # feed
        f = position('custom_target-feed', 'ct_feed', 'ct_feed.out', [[sl(c['ct_feed'])]], 'feed')
        if f:
            return f
        rec = read_records(logdir, 'ct_feed')[0]
        if rec.get('stdin') != b'feed\r\n\x00\xff line2\n'.hex():
            return Failure('custom_target-feed/stdin-differs', c, f'stdin fed to the command differs from the input file: {bytes.fromhex(rec.get("stdin", ""))!r}')
        pos_results.append(('custom_target/feed', c['ct_feed']))
        # env
        f = position('custom_target-env', 'ct_env', 'ct_env.out', [[sl(c['ct_env_args'])]], 'env')
        if f:
            return f
        rec = read_records(logdir, 'ct_env')[0]
        wantenv = {f'VERIF_E{i}': v for i, v in enumerate(c['ct_env'])}
        if rec['env'] != wantenv:
            return Failure('custom_target-env/env-differs', c, f'environment received differs\n expected {wantenv!r}\n received {rec["env"]!r}')
        pos_results.append(('custom_target/env', c['ct_env'] + c['ct_env_args']))
        # newline => pickled wrapper
        f = position('custom_target-newline', 'ct_nl', 'ct_nl.out', [[sl(c['ct_nl'])]], 'pickled wrapper')
        if f:
            return f
        pos_results.append(('custom_target/pickled', c['ct_nl']))
        # run_target
        f = position('run_target', 'rt', 'meson-internal__rt', [[sl(c['rt'])]], 'run_target')
        if f:
            return f
        pos_results.append(('run_target', c['rt']))
        if c.get('tpl'):
            where = {'CURRENT_SOURCE_DIR': src, 'SOURCE_ROOT': src, 'BUILD_ROOT': bld, 'OUTDIR': bld, 'PRIVATE_DIR': None}
            for ident, out, items in (('ct_tpl', 'ct_tpl.out', c['tpl']),
                                      ('rt_tpl', 'meson-internal__rt_tpl', [t for t in c['tpl'] if t[1] in ('CURRENT_SOURCE_DIR', 'SOURCE_ROOT', 'BUILD_ROOT')])):
                if not items:
                    continue
                rr, err = run_out(out)
                if rr is None:
                    return Failure('placeholder/no-statement', c, err)
                if rr.rc != 0:
                    return Failure('placeholder/command-fails', c, f'{ident}: the generated command failed (exit {rr.rc}):\n$ {rr.command}\n{rr.output[-800:]}')
                recs = read_records(logdir, ident)
                if len(recs) != 1 or len(recs[0]['argv']) != len(items):
                    return Failure('placeholder/argument-count', c, f'{ident}: expected one execution with {len(items)} arguments, saw {[r["argv"] for r in recs]}')
                for (pre, name, suf), got in zip(items, recs[0]['argv']):
                    mid = got[len(pre):len(got) - len(suf)] if suf else got[len(pre):]
                    ok = got.startswith(pre) and got.endswith(suf) and len(got) >= len(pre) + len(suf) and mid != ''
                    if ok and where[name] is not None:
                        # "may be an absolute or a relative to current workdir path": any spelling of the right directory
                        ok = os.path.realpath(os.path.join(bld, mid)) == os.path.realpath(where[name])
                    elif ok:
                        ok = os.path.realpath(os.path.join(bld, mid)).startswith(os.path.realpath(bld) + os.sep)
                    if not ok:
                        return Failure(f'placeholder/surrounding-text-changed:{name}', c,
                                       f'{ident}: the argument {pre + "@" + name + "@" + suf!r} arrived as {got!r}: only the placeholder may be replaced '
                                       f'(by a spelling of {where[name] or "the private directory of the target"}), the text before and after it must arrive unchanged\n$ {rr.command}')
            pos_results.append(('custom_target/embedded-placeholder', [p + '@' + n + '@' + s_ for p, n, s_ in c['tpl']]))
        if c.get('rt_tw'):
            for name, want_args in zip(('rt_tw1', 'rt_tw2'), twin_lists(c)):
                for pth in glob.glob(os.path.join(logdir, 'rt_tw.*.json')):
                    os.unlink(pth)
                rr, err = run_out('meson-internal__' + name)
                if rr is None:
                    return Failure('run_target-twin/no-statement', c, err)
                if rr.rc != 0:
                    return Failure('run_target-twin/command-fails', c, f'{name}: the generated command failed (exit {rr.rc}):\n$ {rr.command}\n{rr.output[-800:]}')
                recs = read_records(logdir, 'rt_tw')
                if len(recs) != 1:
                    return Failure(f'run_target-twin/ran-{len(recs)}-times', c, f'{name}: expected exactly one execution, saw {len(recs)}\n$ {rr.command}')
                if recs[0]['argv'] != sl(want_args):
                    return Failure('run_target-twin/argv-differs', c,
                                   f'{name} (pickled wrapper; a second run_target has the same words split differently): argv received differs from '
                                   f'the build definition\n expected: {sl(want_args)!r}\n received: {recs[0]["argv"]!r}\n$ {rr.command}')
            pos_results.append(('run_target/pickled-twin', twin_lists(c)[0]))
        # generator
        if c.get('gen_extra') is not None:
            # extra_args are the user's per-call strings: only the unchanged form is right for them
            exp_gen = [c['gen'] + ['--extra'] + c['gen_extra'], sl(c['gen']) + ['--extra'] + c['gen_extra']]
        else:
            exp_gen = [c['gen'], sl(c['gen'])]
        f = position('generator', 'gen', 'e.p/gin.h', [exp_gen], 'generator')
        if f:
            return f
        pos_results.append(('generator', c['gen']))
        # compile + link: same expansion with the dumper in place of the compiler driver
        dump = os.path.join(src, 'dump.py')

        def subst(ident: str) -> T.Callable[[str], str]:
            def fn(cmd: str) -> str:
                assert cmd.startswith(('cc ', 'c++ ')), cmd[:40]
                return f'{refninja.shell_escape(PY)} {refninja.shell_escape(dump)} --log {refninja.shell_escape(logdir)} --id {ident} -- ' + cmd.split(' ', 1)[1]
            return fn
        for ident, out, groups in (
                ('compile', 'e.p/main.c.o', [('global', ca['glob_args'], False), ('project', ca['proj_args'], False), ('target', ca['c_args'], True)]),
                ('link', 'e', [('link', ca['link_args'], False)])):
            rr, err = run_out(out, subst(ident))
            if rr is None:
                return Failure(f'{ident}/no-statement', c, err)
            if rr.rc != 0:
                return Failure(f'{ident}/command-fails', c, f'{ident}: expanded command failed under /bin/sh (exit {rr.rc}):\n$ {rr.command}\n{rr.output[-800:]}')
            recs = read_records(logdir, ident)
            if len(recs) != 1:
                return Failure(f'{ident}/ran-{len(recs)}-times', c, f'{ident}: dumper ran {len(recs)} times\n$ {rr.command}')
            got = expand_rsp(recs[0])
            for gname, lst, per_target in groups:
                exp_l = [(a.replace('\\', '\\\\') if (per_target and a.startswith(('-D', '/D'))) else a) for a in lst]
                why = in_order_once(exp_l, got)
                if why:
                    return Failure(f'{ident}/{gname}-args-differ{"/rsp" if c["rsp"] else ""}', c,
                                   f'{ident} ({gname} arguments, rsp={c["rsp"]}): {why}\n expected (in order, once each): {exp_l!r}\n received: {got!r}\n$ {rr.command}')
                pos_results.append((f'{ident}/{gname}{"/rsp" if c["rsp"] else ""}', lst))
            if ident == 'compile':
                for gname, pairs in (('project', twotok_pairs(c)['proj_args']), ('target', twotok_pairs(c)['c_args'])):
                    last = -1
                    for opt, operand in pairs:
                        idx = [k for k, a in enumerate(got) if a == operand]
                        if len(idx) != 1 or idx[0] == 0 or got[idx[0] - 1] != opt or idx[0] < last:
                            return Failure(f'compile/{gname}-two-token-option-split{"/rsp" if c["rsp"] else ""}', c,
                                           f'compile ({gname} arguments): the pair {opt!r} {operand!r} (two-token spelling, used several times) does not '
                                           f'arrive together / once / in order\n pairs given: {pairs!r}\n received: {got!r}\n$ {rr.command}')
                        last = idx[0]
                    if pairs:
                        pos_results.append((f'compile/{gname}-two-token', [t for pr in pairs for t in pr]))
        if c.get('ml'):
            mm = ml_args(c)
            scope = 'global' if c['ml']['glob'] else 'project'
            for ident, out, mine, foreign in (
                    ('ml_c_compile', 'e.p/main.c.o', mm['both'] + mm['c'], mm['cpp'] + mm['lboth'] + mm['lc'] + mm['lcpp']),
                    ('ml_cpp_compile', 'epp.p/mainpp.cpp.o', mm['both'] + mm['cpp'], mm['c'] + ca['glob_args'] + ca['proj_args'] + mm['lboth'] + mm['lc'] + mm['lcpp']),
                    ('ml_c_link', 'e', mm['lboth'] + mm['lc'], mm['lcpp'] + mm['both'] + mm['c'] + mm['cpp']),
                    ('ml_cpp_link', 'epp', mm['lboth'] + mm['lcpp'], mm['lc'] + mm['both'] + mm['c'] + mm['cpp'])):
                rr, err = run_out(out, subst(ident))
                if rr is None:
                    return Failure('per-language/no-statement', c, err)
                if rr.rc != 0:
                    return Failure('per-language/command-fails', c, f'{ident}: expanded command failed (exit {rr.rc}):\n$ {rr.command}\n{rr.output[-800:]}')
                recs = read_records(logdir, ident)
                if len(recs) != 1:
                    return Failure(f'per-language/ran-{len(recs)}-times', c, f'{ident}: dumper ran {len(recs)} times')
                got = expand_rsp(recs[0])
                why = in_order_once(mine, got)
                leaked = [a for a in foreign if a in got]
                if why or leaked:
                    return Failure(f'per-language/{ident}-args-differ', c,
                                   f'{scope} arguments given per language (one call for c and cpp together, then one call per language): {ident} must '
                                   f'receive exactly the arguments of its own language, once each, in order; {why or ""} arguments of another language / '
                                   f'of the other step received: {leaked!r}\n expected: {mine!r}\n received: {got!r}')
            pos_results.append((f'per-language/{scope}', mm['both'] + mm['c'] + mm['cpp'] + mm['lboth'] + mm['lc'] + mm['lcpp']))
        if c.get('bl'):
            com, sta, sha = bl_args(c)
            for half, out, mine, other in (('static', 'libbl.a.p/blsrc.c.o', sta, sha), ('shared', 'libbl.so.p/blsrc.c.o', sha, sta)):
                ident = 'bl_' + half
                rr, err = run_out(out, subst(ident))
                if rr is None:
                    return Failure('both_libraries/no-statement', c, err)
                if rr.rc != 0:
                    return Failure('both_libraries/command-fails', c, f'{ident}: expanded command failed (exit {rr.rc}):\n$ {rr.command}\n{rr.output[-800:]}')
                recs = read_records(logdir, ident)
                if len(recs) != 1:
                    return Failure(f'both_libraries/ran-{len(recs)}-times', c, f'{ident}: dumper ran {len(recs)} times')
                got = expand_rsp(recs[0])
                why = in_order_once(com + mine, got)
                leaked = [a for a in other if a in got]
                if why or leaked:
                    return Failure(f'both_libraries/{half}-half-args-differ', c,
                                   f'both_libraries(): the {half} half must be compiled with c_args + c_{half}_args and nothing of the other half\'s list; '
                                   f'{why or ""} leaked from the other half: {leaked!r}\n expected: {com + mine!r}\n received: {got!r}')
            pos_results.append(('compile/both_libraries-halves', com + sta + sha))
        # tests, for real
        shutil.rmtree(os.path.join(logdir), ignore_errors=True)
        os.makedirs(logdir)
        tr = run_sub(['test', '--no-rebuild', '-C', bld], timeout=120)
        recs = read_records(logdir, 'test')
        if len(recs) != 1:
            return Failure(f'test/ran-{len(recs)}-times', c, f'meson test ran the test program {len(recs)} times (exit {tr.rc})\n{tr.text[-800:]}')
        if recs[0]['argv'] != c['test']:
            return Failure('test/argv-differs', c, f'test(): argv differs\n expected {c["test"]!r}\n received {recs[0]["argv"]!r}')
        wantenv = {f'VERIF_E{i}': v for i, v in enumerate(c['test_env'])}
        if recs[0]['env'] != wantenv:
            return Failure('test/env-differs', c, f'test(): env differs\n expected {wantenv!r}\n received {recs[0]["env"]!r}')
        pos_results.append(('test', c['test'] + c['test_env']))
        if 'test2' in c:
            for mode, extra in (('plain', []), ('setup', ['--setup', 'wrapped']), ('wrapper', ['--wrapper', '/usr/bin/env VERIF_EW=cmdline'])):
                if mode != 'plain':
                    shutil.rmtree(os.path.join(logdir), ignore_errors=True)
                    os.makedirs(logdir)
                    tr = run_sub(['test', '--no-rebuild', '-C', bld] + extra, timeout=120)
                for ident, want in (('test', c['test']), ('test2', c['test2'])):
                    recs = read_records(logdir, ident)
                    if len(recs) != 1:
                        return Failure(f'test/{mode}/ran-{len(recs)}-times', c, f'`meson test {" ".join(extra)}` started the program of test {ident!r} '
                                       f'{len(recs)} times with a usable command line (exit {tr.rc})\n{tr.text[-800:]}')
                    if recs[0]['argv'] != want:
                        return Failure(f'test/{mode}/argv-differs', c, f'`meson test {" ".join(extra)}`: argv of {ident!r} differs\n expected {want!r}\n received {recs[0]["argv"]!r}')
                    if mode != 'plain' and recs[0]['env'].get('VERIF_EW') != ('in setup' if mode == 'setup' else 'cmdline'):
                        return Failure(f'test/{mode}/wrapper-not-used', c, f'`meson test {" ".join(extra)}`: {ident!r} did not run under the wrapper '
                                       f'(VERIF_EW={recs[0]["env"].get("VERIF_EW")!r})')
            pos_results.append(('test/wrapped', c['test'] + c['test2']))
        if ev is not None:
            for pname, lst in pos_results:
                ev.case((pname, lst), nontrivial=has_meta(lst), cls=pname, sample={'position': pname, 'args': lst})
        return None
    finally:
        shutil.rmtree(workdir, ignore_errors=True)


def _shard(shard: T.Tuple[int, int], ev: Evidence, fails: T.List[Failure]) -> None:
    seed, n = shard
    work = make_scratch(f'c03-{seed}')

    def check(c: dict) -> T.Optional[Failure]:
        f = check_case(c, os.path.join(work, 'case'), ev)
        if f is not None:
            f2 = check_case(c, os.path.join(work, 'case'), None, confirm_sub=True)
            if f2 is None:
                ev.inproc_only += 1
                return None
            return f2
        return None
    try:
        campaign(cases(), check, n, seed, fails)
    finally:
        shutil.rmtree(work, ignore_errors=True)


def run(ctx: Ctx) -> None:
    per = ctx.n(4, 90)
    pmap(ctx, _shard, [(s, per) for s in shard_seeds(ctx, 16)])


def replay(ctx: Ctx, case: T.Any, doc: dict) -> T.Optional[Failure]:
    return check_case(case, os.path.join(ctx.scratch, 'replay'), None, confirm_sub=True)
