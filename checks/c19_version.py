"""C19 - Version comparison is a consistent order and constraint logic is sound.

Oracle: order axioms + an independent reference comparator written from the
property sentence + sampled-membership semantics for the Range algebra.
"""
from __future__ import annotations

import itertools
import operator
import random
import typing as T
import unicodedata

from harness.core import Ctx, Evidence, Failure, pmap, campaign, shard_seeds

LEVEL = 'exploration'
RULE = ('exhaustive: all version strings of <=3 components over {0,1,2,9,10,01,a,b,rc,A} (one seeded separator '
        'rendering each) -> all ordered pairs (axioms + reference comparator + every operator spelling), all triples '
        'over a core subset (transitivity); all Range pairs over a version chain with membership sampled on a '
        'complete witness grid; all constraint lists <=3 (quick: <=2 + sample); Hypothesis arbitrary-text versions. '
        'non-trivial pair = mixes numeric and alphabetic components, or differs only in length/leading zeros/separators; '
        'non-trivial range pair = partially overlapping or touching at a bound; distinct by the tuple itself '
        '(enumerations are duplicate-free by construction).')
ASSUMPTIONS = [
    'alphabetic components are ordered by plain string comparison (RPM style); the property only fixes numeric-vs-alpha rank, numeric order and the longer-is-greater rule',
    'a constraint string starts with the operator (no leading blanks); blanks between operator and version are insignificant',
]

COMPONENTS = ['0', '1', '2', '9', '10', '01', 'a', 'b', 'rc', 'A']
SEPS = ['.', '-', '_', '+', '~', '']
OPS = ['>=', '<=', '!=', '==', '=', '>', '<', '']
PYOP = {'>=': operator.ge, '<=': operator.le, '!=': operator.ne, '==': operator.eq, '=': operator.eq,
        '>': operator.gt, '<': operator.lt, '': operator.eq}


# ---------------------------------------------------------------------------
# reference model (no regexes, no code shared with mesonlib)

def ref_tokens(s: str) -> T.List[T.Tuple[int, T.Union[int, str]]]:
    out: T.List[T.Tuple[int, T.Union[int, str]]] = []
    i, n = 0, len(s)
    while i < n:
        ch = s[i]
        if unicodedata.category(ch) == 'Nd':
            j = i
            while j < n and unicodedata.category(s[j]) == 'Nd':
                j += 1
            out.append((1, int(s[i:j])))
            i = j
        elif ('a' <= ch <= 'z') or ('A' <= ch <= 'Z'):
            j = i
            while j < n and (('a' <= s[j] <= 'z') or ('A' <= s[j] <= 'Z')):
                j += 1
            out.append((0, s[i:j]))
            i = j
        else:
            i += 1
    return out


def ref_cmp(a: str, b: str) -> int:
    ta, tb = ref_tokens(a), ref_tokens(b)
    for x, y in zip(ta, tb):
        if x[0] != y[0]:
            return 1 if x[0] > y[0] else -1   # numeric ranks above alphabetic
        if x[1] != y[1]:
            return 1 if x[1] > y[1] else -1   # type: ignore[operator]
    return (len(ta) > len(tb)) - (len(ta) < len(tb))


def ref_op(op: str, c: int) -> bool:
    return {'>=': c >= 0, '<=': c <= 0, '!=': c != 0, '==': c == 0, '=': c == 0, '>': c > 0, '<': c < 0, '': c == 0}[op]


def selftest(ctx: Ctx) -> None:
    from harness.core import HarnessError
    chain = ['1.0', '1.0rc1', '1.0.1', '1.2', '1.10', '2.0']   # longer-with-equal-prefix is greater; numeric above alpha
    for i, a in enumerate(chain):
        for j, b in enumerate(chain):
            want = (i > j) - (i < j)
            if ref_cmp(a, b) != want:
                raise HarnessError(f'reference comparator self-test failed on {a!r} vs {b!r}')
    if ref_cmp('1.0', '1.0a') >= 0 or ref_cmp('1.a', '1.0') >= 0 or ref_cmp('1.01', '1.1') != 0:
        raise HarnessError('reference comparator self-test failed (alpha/leading-zero cases)')


# ---------------------------------------------------------------------------
# domains

def version_universe(seed: int) -> T.List[str]:
    rnd = random.Random(seed)
    out = []
    seen = set()
    for k in (1, 2, 3):
        for comps in itertools.product(COMPONENTS, repeat=k):
            s = comps[0]
            for c in comps[1:]:
                s += rnd.choice(SEPS) + c
            if s not in seen:
                seen.add(s)
                out.append(s)
    return out


def nontrivial_pair(a: str, b: str) -> bool:
    ta, tb = ref_tokens(a), ref_tokens(b)
    kinds = {k for k, _ in ta} | {k for k, _ in tb}
    if len(kinds) == 2:
        return True
    return a != b and (ref_cmp(a, b) == 0 or len(ta) != len(tb))


def check_pair(V: T.Any, ml: T.Any, a: str, b: str, opspell: T.Sequence[str]) -> T.Optional[Failure]:
    va, vb = V(a), V(b)
    lt, eq, gt = va < vb, va == vb, va > vb
    case = {'a': a, 'b': b}
    if (lt + eq + gt) != 1:
        return Failure('order/trichotomy', case, f'{a!r} vs {b!r}: < {lt} == {eq} > {gt} (exactly one must hold)')
    le, ge, ne = va <= vb, va >= vb, va != vb
    if le != (lt or eq) or ge != (gt or eq) or ne == eq:
        return Failure('order/derived-ops', case, f'{a!r} vs {b!r}: <= {le} >= {ge} != {ne} inconsistent with < {lt} == {eq} > {gt}')
    if lt != (vb > va) or gt != (vb < va) or eq != (vb == va):
        return Failure('order/antisymmetry', case, f'{a!r} vs {b!r}: a<b={lt} but b>a={vb > va}; a>b={gt}, b<a={vb < va}')
    if eq and hash(va) != hash(vb):
        return Failure('order/hash', case, f'{a!r} == {b!r} but hashes differ')
    c = ref_cmp(a, b)
    got = -1 if lt else (0 if eq else 1)
    if got != c:
        return Failure('order/reference', case, f'{a!r} vs {b!r}: implementation says {got}, reference order says {c}')
    for sp in opspell:
        op = sp.strip()
        want = ref_op(op, c)
        r = ml.version_compare(a, sp + b)
        if r != want:
            return Failure(f'compare/op:{op or "bare"}', {'a': a, 'cond': sp + b},
                           f'version_compare({a!r}, {sp + b!r}) = {r}, order says {want}')
    return None


def _pairs_shard(shard: T.Tuple[T.List[str], int, int, int], ev: Evidence, fails: T.List[Failure]) -> None:
    import mesonbuild.mesonlib as ml
    V = ml.Version
    universe, lo, hi, seed = shard
    rnd = random.Random(seed)
    spellings = [op for op in OPS] + [op + ' ' for op in OPS if op] + [op + '  ' for op in ('>=', '<')]
    sigs = set()
    nt = 0
    n = 0
    for i in range(lo, hi):
        a = universe[i]
        for b in universe:
            # each pair gets 3 operator spellings (all spellings are covered many times over the universe)
            sp = (spellings[(n) % len(spellings)], spellings[(n * 7 + 3) % len(spellings)], rnd.choice(spellings))
            n += 1
            f = check_pair(V, ml, a, b, sp)
            if nontrivial_pair(a, b):
                nt += 1
            if f is not None and f.sig not in sigs:
                sigs.add(f.sig)
                fails.append(f)
    ev.evaluations += n
    ev.add_distinct(nt)
    ev.event('pairs', n)
    if lo == 0:
        for b in universe[37:600:131]:
            ev.case({'a': universe[lo + 5], 'b': b, 'ref_cmp': ref_cmp(universe[lo + 5], b)}, cls='pair')


def _triples_shard(shard: T.Tuple[T.List[str], int, int], ev: Evidence, fails: T.List[Failure]) -> None:
    import mesonbuild.mesonlib as ml
    core, lo, hi = shard
    vs = [ml.Version(s) for s in core]
    n = 0
    found = False
    for i in range(lo, hi):
        a = vs[i]
        for j, b in enumerate(vs):
            ab_lt, ab_eq, ab_le = a < b, a == b, a <= b
            if not ab_le:
                continue
            for k, c in enumerate(vs):
                n += 1
                if found:
                    continue
                bad = None
                if ab_lt and b < c and not a < c:
                    bad = '<'
                elif ab_eq and b == c and not a == c:
                    bad = '=='
                elif ab_le and b <= c and not a <= c:
                    bad = '<='
                elif ab_lt and b == c and not a < c:
                    bad = '<,=='
                if bad:
                    found = True
                    fails.append(Failure('order/transitivity', {'a': core[i], 'b': core[j], 'c': core[k]},
                                         f'transitivity of {bad} broken: {core[i]!r}, {core[j]!r}, {core[k]!r}'))
    ev.evaluations += n
    ev.add_distinct(n)
    ev.event('triples', n)
    if lo == 0:
        ev.case({'a': core[0], 'b': core[len(core) // 2], 'c': core[-1]}, cls='triple')


# -- Range algebra -----------------------------------------------------------

GRID_FULL = ['0.9', '1.0', '1.0rc1', '1.0.0', '1.0.1', '1.1a', '1.1', '1.2', '1.9', '1.10', '1.10.1', '2.0',
             '2.0.1', '3', '3.0', '3.1', '10', '10.1', '11', '12', '12.1', '13', '13.5', '14', '15']


def make_grid(nchain: int) -> T.Tuple[T.List[str], T.List[str]]:
    """grid g0<g1<...<g2k strictly increasing by the reference order; chain = odd positions, so the
    grid holds a point below, at, between and above every possible bound."""
    grid: T.List[str] = []
    for s in GRID_FULL:
        if not grid or ref_cmp(grid[-1], s) < 0:
            grid.append(s)
    grid = grid[:2 * nchain + 1]
    return grid, grid[1::2]


def all_ranges(ml: T.Any, chain: T.List[str]) -> T.List[T.Tuple[T.Any, dict]]:
    out = []
    V = ml.Version
    for mn in [None] + chain:
        for mn_eq in ((False,) if mn is None else (False, True)):
            for mx in [None] + chain:
                for mx_eq in ((False,) if mx is None else (False, True)):
                    d = {'min': mn, 'min_eq': mn_eq, 'max': mx, 'max_eq': mx_eq}
                    r = ml.Range(min=None if mn is None else V(mn), min_eq=mn_eq,
                                 max=None if mx is None else V(mx), max_eq=mx_eq)
                    out.append((r, d))
    return out


def ref_in(d: dict, v: str) -> bool:
    if d['min'] is not None:
        c = ref_cmp(v, d['min'])
        if c < 0 or (c == 0 and not d['min_eq']):
            return False
    if d['max'] is not None:
        c = ref_cmp(v, d['max'])
        if c > 0 or (c == 0 and not d['max_eq']):
            return False
    return True


def _range_shard(shard: T.Tuple[int, int, int], ev: Evidence, fails: T.List[Failure]) -> None:
    import mesonbuild.mesonlib as ml
    nchain, lo, hi = shard
    grid, chain = make_grid(nchain)
    gv = [ml.Version(g) for g in grid]
    ranges = all_ranges(ml, chain)
    member = [[ref_in(d, g) for g in grid] for _, d in ranges]
    sigs: T.Set[str] = set()

    def add(f: Failure) -> None:
        if f.sig not in sigs:
            sigs.add(f.sig)
            fails.append(f)

    n = 0
    nt = 0
    for i in range(lo, min(hi, len(ranges))):
        ra, da = ranges[i]
        ma = member[i]
        # membership of the implementation itself vs the interval sentence
        for g, v, want in zip(grid, gv, ma):
            if (v in ra) != want:
                add(Failure('range/contains', {'range': da, 'v': g}, f'{g!r} in Range{da} = {v in ra}, expected {want}'))
        if ra.is_empty and any(ma):
            add(Failure('range/is_empty', {'range': da}, f'Range{da} reports is_empty but contains grid versions'))
        for j, (rb, db) in enumerate(ranges):
            mb = member[j]
            n += 1
            both = [x and y for x, y in zip(ma, mb)]
            if any(both) and not all(both) and (any(x and not y for x, y in zip(ma, mb))):
                nt += 1
            ri = ra.intersect(rb)
            got = [v in ri for v in gv]
            if got != both:
                k = [a != b for a, b in zip(got, both)].index(True)
                add(Failure('range/intersect', {'a': da, 'b': db, 'v': grid[k]},
                            f'{grid[k]!r} in intersect(Range{da}, Range{db}) = {got[k]}, but in a = {ma[k]}, in b = {mb[k]}'))
            al = ra.always(rb)
            if al is True and any(x and not y for x, y in zip(ma, mb)):
                k = [x and not y for x, y in zip(ma, mb)].index(True)
                add(Failure('range/always-true', {'self': da, 'inner': db, 'v': grid[k]},
                            f'Range{da}.always(Range{db}) is True but {grid[k]!r} is in self and not in inner'))
            if al is False and any(both):
                k = both.index(True)
                add(Failure('range/always-false', {'self': da, 'inner': db, 'v': grid[k]},
                            f'Range{da}.always(Range{db}) is False but {grid[k]!r} is in both'))
            if al not in (True, False, None):
                add(Failure('range/always-type', {'self': da, 'inner': db}, f'always returned {al!r}'))
    ev.evaluations += n
    ev.add_distinct(nt)
    ev.event('range_pairs', n)
    if lo == 0:
        ev.case({'a': ranges[5][1], 'b': ranges[len(ranges) // 2][1], 'grid': grid}, cls='range_pair')


def _checks_shard(shard: T.Tuple[int, T.List[T.Tuple[str, ...]]], ev: Evidence, fails: T.List[Failure]) -> None:
    import mesonbuild.mesonlib as ml
    nchain, lists = shard
    grid, chain = make_grid(nchain)
    gv = [ml.Version(g) for g in grid]
    sigs: T.Set[str] = set()

    def add(f: Failure) -> None:
        if f.sig not in sigs:
            sigs.add(f.sig)
            fails.append(f)

    def split(c: str) -> T.Tuple[str, str]:
        for op in ('>=', '<=', '!=', '==', '=', '>', '<'):
            if c.startswith(op):
                return op, c[len(op):].strip()
        return '', c.strip()

    nt = 0
    for cs in lists:
        parsed = [split(c) for c in cs]
        r = ml.version_check_to_range(list(cs))
        sat_any = False
        for g, v in zip(grid, gv):
            each = [ref_op(op, ref_cmp(g, w)) for op, w in parsed]
            inside = v in r
            if all(each):
                sat_any = True
                if not inside:
                    add(Failure('range/check_to_range-missing', {'checks': list(cs), 'v': g},
                                f'{g!r} satisfies all of {list(cs)} but is not in version_check_to_range -> {r}'))
            else:
                viol_hard = any((not ok) and op != '!=' for ok, (op, _) in zip(each, parsed))
                if viol_hard and inside:
                    add(Failure('range/check_to_range-extra', {'checks': list(cs), 'v': g},
                                f'{g!r} violates a non-!= check of {list(cs)} but is in version_check_to_range -> {r}'))
            # version_compare_many agrees with the conjunction and partitions its input
            ok, not_found, found = ml.version_compare_many(g, list(cs))
            if ok != all(each) or sorted(not_found + found) != sorted(cs) or \
                    any(ref_op(*_so(split(c), g)) is False for c in found) or any(ref_op(*_so(split(c), g)) for c in not_found):
                add(Failure('compare/many', {'v': g, 'conds': list(cs)},
                            f'version_compare_many({g!r}, {list(cs)}) = {(ok, not_found, found)}; per-constraint truth {each}'))
        # condition_with_min: True  =>  every version satisfying the condition is >= minimum
        for m in chain[::2]:
            res = ml.version_compare_condition_with_min(r, m)
            if res:
                for g in grid:
                    if ref_in_impl(r, g, ml) and ref_cmp(g, m) < 0:
                        add(Failure('range/cond_with_min', {'checks': list(cs), 'minimum': m, 'v': g},
                                    f'version_compare_condition_with_min({list(cs)} -> {r}, {m!r}) is True but {g!r} satisfies the condition and is older'))
                        break
        if len(cs) >= 2 and sat_any:
            nt += 1
        ev.evaluations += 1
    ev.add_distinct(nt)
    ev.event('constraint_lists', len(lists))
    if lists:
        ev.case({'checks': list(lists[len(lists) // 2])}, cls='constraint_list')


def _so(p: T.Tuple[str, str], g: str) -> T.Tuple[str, int]:
    return p[0], ref_cmp(g, p[1])


def ref_in_impl(r: T.Any, g: str, ml: T.Any) -> bool:
    return ml.Version(g) in r


# -- arbitrary text (Hypothesis) ----------------------------------------------

def _text_shard(shard: T.Tuple[int, int], ev: Evidence, fails: T.List[Failure]) -> None:
    import mesonbuild.mesonlib as ml
    from hypothesis import strategies as st
    seed, n = shard
    frag = st.one_of(
        st.sampled_from(COMPONENTS + ['', '00', '007', '123456789012345678901234567890', 'alpha', 'Z', 'z', 'rc1', 'dev', 'git']),
        st.sampled_from(SEPS + [' ', '..', ':', '/', '(', ')', '\t', '\n', 'é', '٣', '²', '١٢']),
        st.text(max_size=4),
        st.integers(0, 10**12).map(str),
    )
    ver = st.lists(frag, max_size=8).map(''.join)
    opsp = st.sampled_from(OPS + [o + ' ' for o in OPS if o] + [o + '\t ' for o in OPS if o])
    strat = st.tuples(ver, ver, opsp)

    def check(case: T.Tuple[str, str, str]) -> T.Optional[Failure]:
        a, b, sp = case
        # a condition whose version text itself starts with an operator character or blank is ambiguous: skip+count
        amb = b[:1] in ('>', '<', '=', '!') or b != b.strip()
        nt = nontrivial_pair(a, b)
        ev.case([a, b, sp], nontrivial=nt, cls='text_pair' if not amb else 'text_pair_ambiguous_cond')
        try:
            f = check_pair(ml.Version, ml, a, b, [] if amb else [sp])
        except Exception as e:  # the comparison itself must never raise
            return Failure(f'order/raises:{type(e).__name__}', {'a': a, 'b': b, 'sp': sp}, f'{a!r} vs {b!r} raised {e!r}')
        if amb:
            ev.exclude('condition text begins with operator char or has outer blanks')
        return f

    campaign(strat, check, n, seed, fails)


def dsl_family(ctx: Ctx) -> None:
    """`version_compare` as build definitions call it: on an ordinary string and on meson.version() (a string of its own
    kind, whose method also feeds the meson_version feature checks) - both have to agree with the order, for single
    constraints and for constraint lists, in particular around the running version itself."""
    import os
    import shutil
    from harness.core import make_scratch
    from harness.mesondrv import run_sub, write_tree
    import mesonbuild.coredata as cd
    cur = cd.version
    near = [cur, '0.1', '99', cur + '.1', cur.rsplit('.', 1)[0], '1.0', cur.replace('.', '_')]
    atoms = [op + sp + v for op in OPS if op for v in near for sp in ('', ' ')]
    rnd = random.Random(ctx.seed * 13 + 5)
    lists: T.List[T.List[str]] = [[a] for a in atoms]
    lists += [[rnd.choice(atoms) for _ in range(rnd.choice([2, 2, 3]))] for _ in range(ctx.n(300, 3000))]
    # every list once with `!=<running version>` in each position (the constraint that fails for meson.version())
    lists += [[f'!={cur}', '>=0.1'], ['>=0.1', f'!={cur}'], [f'!=0.1', f'!={cur}', '<99'], [f'!={cur}']]
    q = lambda x: "'" + x + "'"      # noqa: E731
    lines = ["project('vc', meson_version: '>=0.1')", "plain = '@0@'.format(meson.version())"]
    for i, l in enumerate(lists):
        arg = ', '.join(q(c) for c in l)
        lines.append(f"message('VC{i}=@0@,@1@'.format(meson.version().version_compare({arg}), plain.version_compare({arg})))")
    work = make_scratch('c19-dsl')
    try:
        write_tree(os.path.join(work, 'src'), {'meson.build': '\n'.join(lines) + '\n'})
        r = run_sub(['setup', '--backend=none', os.path.join(work, 'bld'), os.path.join(work, 'src')], timeout=600)
        if r.rc != 0:
            ctx.fail(Failure('dsl/setup-failed', {'dsl': True, 'lists': lists[:20]}, f'the version_compare project failed to configure:\n{r.text[-1500:]}'))
            return
        got = {}
        for m in r.messages():
            if m.startswith('VC') and '=' in m:
                k, v = m[2:].split('=', 1)
                got[int(k)] = v
        for i, l in enumerate(lists):
            want = all(ref_op(next(op for op in sorted(OPS, key=len, reverse=True) if c.startswith(op)),
                              ref_cmp(cur, c[len(next(op for op in sorted(OPS, key=len, reverse=True) if c.startswith(op))):].strip())) for c in l)
            exp = 'true' if want else 'false'
            g = got.get(i)
            ctx.ev.case({'dsl': l}, nontrivial=len(l) >= 2 or cur in l[0], cls='dsl/version_compare', sample={'constraints': l, 'expected': want})
            if g != f'{exp},{exp}':
                which = 'meson.version()' if g is not None and g.split(',')[0] != exp else 'a plain string'
                ctx.fail(Failure('dsl/version_compare-differs:' + ('meson-version' if which.startswith('meson') else 'plain'),
                                 {'dsl': True, 'constraints': l},
                                 f'version_compare({l}) on the running version {cur}: expected {exp} on both, got (meson.version(), plain string) = {g}'))
                return
    finally:
        shutil.rmtree(work, ignore_errors=True)


def run(ctx: Ctx) -> None:
    dsl_family(ctx)
    universe = version_universe(ctx.seed)
    n = len(universe)
    step = (n + 63) // 64
    pmap(ctx, _pairs_shard, [(universe, lo, min(lo + step, n), ctx.seed * 31 + lo) for lo in range(0, n, step)])
    ncore = ctx.n(40, 90)
    rnd = random.Random(ctx.seed)
    core = rnd.sample(universe, ncore - 10) + ['1', '01', '1.0', '1.a', '1a', 'a', 'a.1', '1.0.0', '1-0', '1.0a']
    step = (ncore + 15) // 16
    pmap(ctx, _triples_shard, [(core, lo, min(lo + step, ncore)) for lo in range(0, ncore, step)])
    nchain = ctx.n(6, 11)
    nr = (2 * nchain + 1) ** 2
    step = (nr + 31) // 32
    pmap(ctx, _range_shard, [(nchain, lo, lo + step) for lo in range(0, nr, step)])
    # constraint lists
    grid, chain = make_grid(nchain)
    atoms = [op + sp + w for op in OPS for w in chain for sp in ('',)] + ['>= ' + chain[0], '< ' + chain[-1]]
    lists: T.List[T.Tuple[str, ...]] = [(a,) for a in atoms] + list(itertools.product(atoms, repeat=2))
    exhaustive3 = not ctx.quick
    if exhaustive3:
        sub = atoms[::2]
        lists += list(itertools.product(sub, repeat=3))
    else:
        lists += [tuple(rnd.choice(atoms) for _ in range(3)) for _ in range(4000)]
    step = (len(lists) + 63) // 64
    pmap(ctx, _checks_shard, [(nchain, lists[lo:lo + step]) for lo in range(0, len(lists), step)])
    nper = ctx.n(1500, 20000)
    pmap(ctx, _text_shard, [(s, nper) for s in shard_seeds(ctx, 16)])
    ctx.exhaustive = True
    ctx.ev.extra['universe_size'] = n
    ctx.ev.extra['triple_core'] = ncore
    ctx.ev.extra['range_chain'] = nchain
    ctx.ev.extra['exhaustive_scope'] = ('pairs over the universe, triples over the core, range pairs over the chain, '
                                        'constraint lists <=2 (and <=3 over half the atoms in thorough) are enumerated completely; '
                                        'arbitrary-text pairs are sampled')


def replay(ctx: Ctx, case: T.Any, doc: dict) -> T.Optional[Failure]:
    import mesonbuild.mesonlib as ml
    if isinstance(case, dict) and case.get('dsl'):
        c2 = Ctx(ctx.prop, ctx.tier, ctx.seed)
        dsl_family(c2)
        return next(iter(c2.failures.values()), None)
    sig = doc.get('signature', '')
    if sig.startswith('order/transitivity'):
        fails: T.List[Failure] = []
        _triples_shard(([case['a'], case['b'], case['c']], 0, 3), Evidence(), fails)
        return fails[0] if fails else None
    if 'a' in case and 'b' in case and 'min' not in str(case.get('a')):
        return check_pair(ml.Version, ml, case['a'], case['b'], [case.get('sp', '')] if 'sp' in case else OPS)
    if 'cond' in case:
        for op in sorted(OPS, key=len, reverse=True):
            if case['cond'].startswith(op):
                b = case['cond'][len(op):].strip()
                return check_pair(ml.Version, ml, case['a'], b, [case['cond'][:len(case['cond']) - len(case['cond'][len(op):].lstrip())]])
    if 'checks' in case or 'conds' in case:
        fails = []
        _checks_shard((11, [tuple(case.get('checks') or case.get('conds'))]), Evidence(), fails)
        return fails[0] if fails else None
    fails = []
    _range_shard((11, 0, 10**6), Evidence(), fails)
    for f in fails:
        if f.sig == sig:
            return f
    return fails[0] if fails else None
