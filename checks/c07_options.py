"""C07 - Option values resolve by the documented precedence and are always valid.

Engine: exhaustive enumeration of source subsets (2^8 for a subproject option, 2^4 for a top-level
option) through the real `meson setup --backend=none` on a generated top project + subprojects/sp;
Hypothesis for valid/invalid values.  Oracle: a fold over the documented priority list
(docs/markdown/Builtin-options.md "Specifying options per subproject", Machine-files.md, Build-options.md).
"""
from __future__ import annotations

import ast
import itertools
import json
import os
import random
import shutil
import typing as T

from harness.core import Ctx, Evidence, Failure, HarnessError, pmap, campaign, shard_seeds

LEVEL = 'exploration'
RULE = 'see below (filled at the end of the module)'
ASSUMPTIONS: T.List[str] = []

# The eight documented sources for `opt` of subproject `sp`, lowest priority first
# (Builtin-options.md, "The value is overridden in this order").
SRC = ['parent_default_opt',     # 1  opt=value from parent project's default_options
       'sub_default_opt',        # 2  opt=value from subproject's default_options
       'mfile_opt',              # 3  opt=value from machine file
       'cmdline_opt',            # 4  opt=value from command line
       'parent_default_spopt',   # 5  subp:opt=value from parent project's default options
       'spcall_default_opt',     # 6  opt=value from subproject() default_options
       'mfile_spopt',            # 7  subp:opt=value from machine file
       'cmdline_spopt']          # 8  subp:opt=value from command line
TOP_SRC = [0, 2, 3]              # the sources that name the option of the top-level project

TAG = 'C07|'


# ---------------------------------------------------------------------------
# rendering of values

def canon(typ: str, v: T.Any) -> str:
    """what the message() line of the generated build file prints for a value"""
    if typ in ('bool',):
        return 'true' if v else 'false'
    if typ == 'int':
        return str(v)
    if typ == 'array':
        return '[' + ', '.join("'" + x + "'" for x in v) + ']'
    return str(v)


def as_cmd(typ: str, v: T.Any) -> str:
    """KEY=VALUE spelling used on the command line and in default_options strings"""
    if typ == 'bool':
        return 'true' if v else 'false'
    if typ == 'array':
        return ','.join(v)
    return str(v)


def as_mfile(typ: str, v: T.Any) -> str:
    """machine file literal (Machine-files.md "Data Types")"""
    if typ == 'bool':
        return 'true' if v else 'false'
    if typ == 'int' and v >= 0:
        return str(v)     # negative literals are not part of the machine file grammar: written as a string
    if typ == 'array':
        return '[' + ', '.join("'" + x + "'" for x in v) + ']'
    return "'" + str(v).replace('\\', '\\\\').replace("'", "\\'") + "'"


def mstr(s: str) -> str:
    """meson string literal"""
    return "'" + s.replace('\\', '\\\\').replace("'", "\\'") + "'"


def read_stmt(name: str, typ: str, tag: str) -> str:
    """build-file statements printing `<tag><name>|<value>` through message()"""
    g = f"get_option('{name}')"
    if typ == 'feature':   # get_option() returns a feature object (Build-options.md "Features")
        return (f"c07f = {g}\nc07s = 'auto'\nif c07f.enabled()\n  c07s = 'enabled'\nelif c07f.disabled()\n  c07s = 'disabled'\nendif\n"
                f"message('{tag}{name}|' + c07s)\n")
    if typ in ('bool', 'int'):
        e = g + '.to_string()'
    elif typ in ('array', 'umask'):
        e = f"'@0@'.format({g})"
    else:
        e = g
    return f"message('{tag}{name}|' + {e})\n"


# ---------------------------------------------------------------------------
# scenario -> files + argv

def scenario_files(sc: dict) -> T.Dict[str, str]:
    langs = ''.join(', ' + mstr(l) for l in sc.get('langs', []))

    def defopts(key: str) -> str:
        if sc.get('defaults_form') == 'dict':      # project.yaml: "(since 1.2.0): A dictionary may now be passed"
            return '{' + ', '.join(f'{mstr(k)}: {lit(v)}' for k, v in sc.get(key + '_typed', [])) + '}'
        return '[' + ', '.join(mstr(x) for x in sc.get(key, [])) + ']'

    def reads(obs: T.List[T.List[str]], tag: str = TAG) -> str:
        return ''.join(read_stmt(n, t, tag) for n, t in obs)

    top = f"project('top'{langs}, default_options: {defopts('top_defaults')})\n"
    top += reads(sc.get('observe_top', []))
    files: T.Dict[str, str] = {}
    if sc.get('with_sp', True):
        top += f"subproject('sp', default_options: {defopts('call_defaults')})\n"
        if sc.get('sp_langs'):      # a language only the subproject uses: its compiler options are registered late
            langs = ''.join(', ' + mstr(l) for l in sc['sp_langs'])
        sp = f"project('sp'{langs}, default_options: {defopts('sp_defaults')})\n"
        sp += reads(sc.get('observe_sp', []))
        files['src/subprojects/sp/meson.build'] = sp
        if sc.get('sp_options'):
            files['src/subprojects/sp/meson.options'] = sc['sp_options']
        # the top-level value must not be disturbed by configuring the subproject
        top += reads(sc.get('observe_top', []), TAG + 'after:')
    files['src/meson.build'] = top
    if sc.get('top_options'):
        files['src/meson.options'] = sc['top_options']
    for fname, key in (('machine.ini', 'mfile'), ('native2.ini', 'native_for_cross')):
        secs = sc.get(key)
        if secs is None:
            continue
        txt = ''
        for sec, kv in secs.items():
            txt += f'[{sec}]\n' + ''.join(f'{k} = {v}\n' for k, v in kv.items())
        files[fname] = txt
    return files


CROSS_HEADER = {'host_machine': {'system': "'linux'", 'cpu_family': "'x86_64'", 'cpu': "'x86_64'", 'endian': "'little'"}}


def scenario_argv(sc: dict, root: str) -> T.List[str]:
    argv = ['setup', '--backend=' + sc.get('backend', 'none')]
    if sc.get('mfile') is not None:
        argv += ['--cross-file' if sc.get('cross') else '--native-file', os.path.join(root, 'machine.ini')]
    if sc.get('native_for_cross') is not None:
        argv += ['--native-file', os.path.join(root, 'native2.ini')]
    argv += list(sc.get('cmdline', []))
    argv += [os.path.join(root, 'build'), os.path.join(root, 'src')]
    return argv


_ENV_CLEANED = False


def _clean_env() -> None:
    """environment variables that are documented option sources of their own must not leak in"""
    global _ENV_CLEANED
    if _ENV_CLEANED:
        return
    for k in list(os.environ):
        if k.startswith(('PKG_CONFIG_PATH', 'CMAKE_PREFIX_PATH', 'CFLAGS', 'LDFLAGS', 'CPPFLAGS', 'MESON_')) or \
                k.endswith(('_FOR_BUILD',)) or k in ('CC', 'CXX', 'CC_LD', 'DESTDIR'):
            os.environ.pop(k, None)
    _ENV_CLEANED = True


def run_scenario(sc: dict, root: str, inproc: bool = True) -> T.Any:
    from harness import mesondrv
    _clean_env()
    if os.path.exists(root):
        shutil.rmtree(root)
    mesondrv.write_tree(root, scenario_files(sc))
    argv = scenario_argv(sc, root)
    env = {'NINJA': mesondrv.FAKENINJA} if sc.get('backend') == 'ninja' else None     # backend options exist only with a backend
    if inproc:
        return mesondrv.run_inproc(argv, env=env)
    return mesondrv.run_sub(argv, env=env)


def observed(res: T.Any) -> T.Tuple[T.Dict[str, str], T.Dict[str, str], T.Dict[str, str]]:
    top: T.Dict[str, str] = {}
    after: T.Dict[str, str] = {}
    sp: T.Dict[str, str] = {}
    for m in res.messages():
        if m.startswith(TAG):
            name, _, val = m[len(TAG):].partition('|')
            if name.startswith('after:'):
                after[name[6:]] = val
            else:
                top[name] = val
    for m in res.sub_messages('sp'):
        if m.startswith(TAG):
            name, _, val = m[len(TAG):].partition('|')
            sp[name] = val
    return top, after, sp


# ---------------------------------------------------------------------------
# the oracle: a fold over the documented priority list - nothing else

def fold(order: T.Sequence[int], mask: int, vals: T.Sequence[T.Any], default: T.Any) -> T.Tuple[T.Any, str]:
    """value of the LAST present source in `order` (lowest priority first), else the default"""
    res, why = default, 'declared default'
    for i in order:
        if mask >> i & 1:
            res, why = vals[i], SRC[i]
    return res, why


def assign_values(pool: T.Sequence[T.Any], default: T.Any, rot: int = 0) -> T.List[T.Any]:
    """eight source values; distinct when the pool allows it, else cyclic over the non-default values so that
    adjacent priority levels (and the default vs. any level) always differ; two-valued options alternate"""
    others = [v for v in pool if v != default]
    if len(others) >= 2:
        return [others[(i + rot) % len(others)] for i in range(8)]
    return [others[0] if i % 2 == 0 else default for i in range(8)]


def new_scenario(cross: bool = False) -> dict:
    sc: dict = {'top_defaults': [], 'sp_defaults': [], 'call_defaults': [], 'cmdline': [], 'cross': cross}
    if cross:
        sc['mfile'] = {k: dict(v) for k, v in CROSS_HEADER.items()}
    return sc


def add_source(sc: dict, name: str, typ: str, src: int, value: T.Any, project_opt: bool = False) -> None:
    """make documented source number src+1 set option `name` to `value`"""
    sec = 'project options' if project_opt else 'built-in options'
    kv = f'{name}={as_cmd(typ, value)}'
    if src in (0, 1, 4, 5):      # typed twin of the default_options entry, used by the dictionary form
        lst = {0: 'top_defaults', 1: 'sp_defaults', 4: 'top_defaults', 5: 'call_defaults'}[src]
        tv = value if typ in ('bool', 'int', 'array') else str(value)
        sc.setdefault(lst + '_typed', []).append([('sp:' if src == 4 else '') + name, tv])
    if src == 0:
        sc['top_defaults'].append(kv)
    elif src == 1:
        sc['sp_defaults'].append(kv)
    elif src == 2:
        sc.setdefault('mfile', {}).setdefault(sec, {})[name] = as_mfile(typ, value)
    elif src == 3:
        sc['cmdline'].append('-D' + kv)
    elif src == 4:
        sc['top_defaults'].append('sp:' + kv)
    elif src == 5:
        sc['call_defaults'].append(kv)
    elif src == 6:
        sc.setdefault('mfile', {}).setdefault('sp:' + sec, {})[name] = as_mfile(typ, value)
    elif src == 7:
        sc['cmdline'].append('-Dsp:' + kv)
    else:
        raise HarnessError(f'bad source index {src}')


def sp_cell(name: str, typ: str, vals: T.Sequence[T.Any], mask: int, project_opt: bool = False,
            cross: bool = False) -> dict:
    """scenario in which source i (bit i of mask) sets option `name` to vals[i]"""
    sc = new_scenario(cross)
    for i in range(8):
        if mask >> i & 1:
            add_source(sc, name, typ, i, vals[i], project_opt)
    return sc


# ---------------------------------------------------------------------------
# catalogue (transcribed from docs/markdown/Builtin-options.md tables; NOT read from mesonbuild.options)
# name, type, documented default, pool of valid values, "Per subproject" column

CORE: T.List[T.Tuple[str, str, T.Any, T.List[T.Any], bool]] = [
    ('unity_size', 'int', 4, [4, 2, 3, 5, 6, 7, 8, 9, 10, 100, 4096], True),
    ('warning_level', 'combo', '1', ['0', '1', '2', '3', 'everything'], True),
    ('default_library', 'combo', 'shared', ['shared', 'static', 'both'], True),
    ('default_both_libraries', 'combo', 'shared', ['shared', 'static', 'auto'], True),
    ('buildtype', 'combo', 'debug', ['plain', 'debug', 'debugoptimized', 'release', 'minsize'], True),
    ('optimization', 'combo', '0', ['plain', '0', 'g', '1', '2', '3', 's'], True),
    ('debug', 'bool', True, [True, False], True),
    ('werror', 'bool', False, [True, False], True),
    ('strip', 'bool', False, [True, False], True),
    ('unity', 'combo', 'off', ['on', 'off', 'subprojects'], True),
    ('namingscheme', 'combo', 'classic', ['platform', 'classic'], True),
    # "Per subproject: no" (one global value)
    ('auto_features', 'feature', 'auto', ['enabled', 'disabled', 'auto'], False),
    ('errorlogs', 'bool', True, [True, False], False),
    ('layout', 'combo', 'mirror', ['mirror', 'flat'], False),
    ('prefer_static', 'bool', False, [True, False], False),
    ('stdsplit', 'bool', True, [True, False], False),
    ('wrap_mode', 'combo', 'default', ['default', 'nofallback', 'nodownload', 'forcefallback', 'nopromote'], False),
    ('force_fallback_for', 'array', [], [['foo'], ['bar', 'baz'], ['q'], ['z', 'y', 'x']], False),
    ('pkg_config_path', 'array', [], [['/pa'], ['/pb', '/pc'], ['/pd'], ['/pe', '/pf', '/pg']], False),
    ('cmake_prefix_path', 'array', [], [['/ca'], ['/cb', '/cc'], ['/cd']], False),
    ('os2_emxomf', 'bool', False, [True, False], False),
    # Directories table
    ('bindir', 'str', 'bin', ['bin', 'b1', 'b2/x', 'b3'], False),
    ('datadir', 'str', 'share', ['share', 'd1', 'd2/x', 'd3'], False),
    ('includedir', 'str', 'include', ['include', 'i1', 'i2/x', 'i3'], False),
    ('infodir', 'str', 'share/info', ['share/info', 'n1', 'n2/x', 'n3'], False),
    ('libexecdir', 'str', 'libexec', ['libexec', 'l1', 'l2/x', 'l3'], False),
    ('localedir', 'str', 'share/locale', ['share/locale', 'o1', 'o2/x', 'o3'], False),
    ('mandir', 'str', 'share/man', ['share/man', 'm1', 'm2/x', 'm3'], False),
    ('sbindir', 'str', 'sbin', ['sbin', 's1', 's2/x', 's3'], False),
    ('licensedir', 'str', '', ['c1', 'c2/x', 'c3'], False),
    ('prefix', 'str', '/usr/local', ['/usr/local', '/p1', '/p2/x', '/p3'], False),
    # Module options tables (no per-subproject column: treated as global)
    ('pkgconfig.relocatable', 'bool', False, [True, False], False),
    ('python.bytecompile', 'int', 0, [0, -1, 1, 2], False),
    ('python.install_env', 'combo', 'prefix', ['auto', 'prefix', 'system', 'venv'], False),
    ('python.platlibdir', 'str', '', ['/pl1', 'pl2', '/pl3/x'], False),
    ('python.purelibdir', 'str', '', ['/pu1', 'pu2', '/pu3/x'], False),
    ('python.allow_limited_api', 'bool', True, [True, False], False),
]
CORE_SKIPPED = ['backend (fixed to none by the harness; read-only)', 'genvslite / vsenv (Visual Studio only)',
                'install_umask via get_option (see report: get_option() cannot return a numeric umask); checked via introspection only',
                'libdir default (platform detected, not documented as a function of prefix)',
                'python.build_config (file path that must exist when used)']

# project options (Build-options.md "Build option types"): declaration args with an explicit value, the explicit
# default, the default documented for an omitted `value:`, pool of valid values
PTYPES: T.Dict[str, dict] = {
    'string': {'typ': 'str', 'decl': "type: 'string'", 'value': "'sdef'", 'default': 'sdef', 'implicit': '',
               'pool': ['sdef', 's1', 's2', 's3', 's4', 's5', 's6', 's7', 's8', 's9']},
    'boolean': {'typ': 'bool', 'decl': "type: 'boolean'", 'value': 'false', 'default': False, 'implicit': True,
                'pool': [False, True]},
    'integer': {'typ': 'int', 'decl': "type: 'integer', min: -5, max: 20", 'value': '3', 'default': 3, 'implicit': None,
                'pool': [3, -5, 0, 1, 2, 7, 11, 19, 20, -1]},
    'combo': {'typ': 'combo', 'decl': "type: 'combo', choices: ['one', 'two', 'three', 'four', 'five', 'six', 'seven', 'eight', 'nine', 'ten']",
              'value': "'three'", 'default': 'three', 'implicit': 'one',
              'pool': ['three', 'one', 'two', 'four', 'five', 'six', 'seven', 'eight', 'nine', 'ten']},
    'array': {'typ': 'array', 'decl': "type: 'array', choices: ['a', 'b', 'c', 'd']", 'value': "['a', 'b']", 'default': ['a', 'b'],
              'implicit': ['a', 'b', 'c', 'd'],
              'pool': [['a', 'b'], ['c'], ['a'], [], ['b', 'c'], ['d', 'a'], ['d'], ['c', 'd'], ['b'], ['d', 'c', 'b']]},
    'feature': {'typ': 'feature', 'decl': "type: 'feature'", 'value': "'disabled'", 'default': 'disabled', 'implicit': None,
                'pool': ['disabled', 'enabled', 'auto']},
}
# a parent option of a *different* type whose values are outside the subproject option's domain
PNAME = {'string': 'mystr', 'boolean': 'mybool', 'integer': 'myint', 'combo': 'mycomb', 'array': 'myarr', 'feature': 'myfeat'}
DIFFTYPE_PARENT = {'string': 'boolean', 'boolean': 'string', 'integer': 'string', 'combo': 'string', 'array': 'string',
                   'feature': 'string'}
# ... and of a *related* type (UserFeatureOption derives from UserComboOption in the implementation); the values are again
# outside the subproject option's domain: a combo option must not yield to a feature option or vice versa
DIFFTYPE_PARENT2 = {'combo': 'feature', 'feature': 'combo'}
SUB_LEVEL = [1, 4, 5, 6, 7]          # sources that can name a project option of the subproject
SP_SPELLED = [4, 6, 7]               # ... spelled `sp:opt`


def pdecl(name: str, ptype: str, explicit: bool = True, yielding: bool = False) -> str:
    p = PTYPES[ptype]
    s = f"option('{name}', {p['decl']}"
    if explicit:
        s += f", value: {p['value']}"
    if yielding:
        s += ', yield: true'
    return s + ')\n'


def popcount(x: int) -> int:
    return bin(x).count('1')


# ---------------------------------------------------------------------------
# evaluating one cell

def admissible(got: T.Optional[str], want: T.Any) -> bool:
    """want: canonical string | list of admissible strings | {'array_subset': choices} | {'any': true}"""
    if got is None:
        return False
    if isinstance(want, str):
        return got == want
    if isinstance(want, list):
        return got in want
    if 'any' in want:
        return True
    try:
        v = ast.literal_eval(got)
    except (ValueError, SyntaxError):
        return False
    return isinstance(v, list) and all(x in want['array_subset'] for x in v)


def mismatches(res: T.Any, expect: dict) -> T.List[T.Tuple[str, str, T.Optional[str], T.Any]]:
    """[(view, option, got, want)]; `want` is a canonical string or a list of admissible strings"""
    out: T.List[T.Tuple[str, str, T.Optional[str], T.Any]] = []
    if res.rc != 0 or res.unhandled:
        return [('setup', 'rc', f'rc={res.rc}' + (' unhandled exception' if res.unhandled else ''), 'rc=0')]
    top, after, sp = observed(res)
    for view, got in (('top', top), ('top-after-subproject', after), ('sp', sp)):
        want = expect.get('top' if view.startswith('top') else 'sp', {})
        if view == 'top-after-subproject' and not after:
            continue
        for name, w in want.items():
            g = got.get(name)
            if not admissible(g, w):
                out.append((view, name, g, w))
    return out


def error_lines(res: T.Any) -> str:
    return ' / '.join(l for l in res.text.splitlines() if 'ERROR' in l or 'Traceback' in l)[:400]


def describe(sc: dict) -> str:
    parts = []
    for k in ('top_options', 'sp_options'):
        if sc.get(k):
            parts.append(f'{k}: {sc[k].strip()}')
    for k in ('top_defaults', 'sp_defaults', 'call_defaults', 'cmdline'):
        if sc.get(k):
            parts.append(f'{k}={sc[k]}')
    for k in ('mfile', 'native_for_cross'):
        if sc.get(k):
            parts.append(f'{k}={ {s: kv for s, kv in sc[k].items() if s != "host_machine"} }')
    if sc.get('cross'):
        parts.append('cross build')
    if sc.get('defaults_form') == 'dict':
        parts.append('default_options written as dictionaries with typed values')
    return '; '.join(parts)


def cell_failure(group: str, sc: dict, expect: dict, why: str, srcvals: T.Optional[T.Dict[str, str]],
                 res: T.Any, mm: T.List[T.Tuple[str, str, T.Optional[str], T.Any]]) -> Failure:
    view, name, got, want = mm[0]
    if view == 'setup':
        tag = 'setup-failed'
    else:
        gsrc = 'other'
        if srcvals:
            for s in ['default'] + SRC:     # highest-priority source carrying the value that was observed
                if srcvals.get(s) == got:
                    gsrc = s
        wsrc = expect.get('winner', {}).get(('top' if view.startswith('top') else 'sp') + ':' + name, '?')
        tag = f'{view}:want={wsrc},got={gsrc}'
    case = {'kind': 'cell', 'group': group, 'scenario': sc, 'expect': expect, 'why': why, 'srcvals': srcvals}
    msg = (f'[{group}] {describe(sc)}\n  expected {view} {name} = {want!r} ({why})\n  got {got!r}'
           + (f'\n  {error_lines(res)}' if res.rc != 0 else ''))
    return Failure(f'{group}/{tag}', case, msg)


def check_cell(group: str, sc: dict, expect: dict, why: str, root: str, srcvals: T.Optional[T.Dict[str, str]] = None,
               inproc: bool = True) -> T.Optional[Failure]:
    res = run_scenario(sc, root, inproc=inproc)
    mm = mismatches(res, expect)
    if not mm:
        return None
    return cell_failure(group, sc, expect, why, srcvals, res, mm)


def confirm(f: Failure, root: str, ev: Evidence) -> T.Optional[Failure]:
    """re-run an in-process disagreement in a fresh interpreter (harness rule)"""
    c = f.case
    g = check_cell(c['group'], c['scenario'], c['expect'], c['why'], root, c.get('srcvals'), inproc=False)
    if g is None:
        ev.inproc_only += 1
    return g


class Bucket:
    """collect in-process failures per signature, keep the smallest, confirm by subprocess at the end"""

    def __init__(self, limit: int = 6) -> None:
        self.best: T.Dict[str, T.List[T.Tuple[int, Failure]]] = {}
        self.limit = limit

    def add(self, f: T.Optional[Failure], size: int) -> None:
        if f is None:
            return
        lst = self.best.setdefault(f.sig, [])
        if len(self.best) > self.limit and not lst:
            del self.best[f.sig]
            return
        lst.append((size, f))
        lst.sort(key=lambda t: t[0])
        del lst[3:]

    def flush(self, root: str, ev: Evidence, fails: T.List[Failure]) -> None:
        for sig in sorted(self.best):
            for _, f in self.best[sig]:
                g = confirm(f, root, ev)
                if g is not None:
                    fails.append(g)
                    break


# ---------------------------------------------------------------------------
# introspection (`meson introspect --buildoptions`)

INT_RANGES = {'unity_size': (2, None), 'python.bytecompile': (-1, 2), 'myint': (-5, 20), 'sp:myint': (-5, 20), 'myint0': (0, 9), 'sp:myint0': (0, 9), 'myintneg': (-9, 0), 'sp:myintneg': (-9, 0), 'myintmin0': (0, None), 'sp:myintmin0': (0, None),
              'install_umask': (0, 0o777)}


INTRO_NOT_LISTED = {'namingscheme'}


def introspect(root: str, inproc: bool = True) -> T.Optional[T.Dict[str, dict]]:
    from harness import mesondrv
    args = ['introspect', '--buildoptions', os.path.join(root, 'build')]
    r = mesondrv.run_inproc(args) if inproc else mesondrv.run_sub(args)
    if r.rc != 0:
        return None
    try:
        return {e['name']: e for e in json.loads(r.out)}
    except ValueError:
        return None


def intro_invalid(entries: T.Dict[str, dict]) -> T.Optional[str]:
    """a value reported by introspection that violates its own type/choices/range, or None"""
    for name, e in entries.items():
        v, typ = e.get('value'), e.get('type')
        ch = e.get('choices')
        if typ == 'boolean' and not isinstance(v, bool):
            return f'{name}: boolean option holds {v!r}'
        if typ == 'integer':
            if isinstance(v, bool) or not isinstance(v, int):
                return f'{name}: integer option holds {v!r}'
            lo, hi = INT_RANGES.get(name, (None, None))
            if (lo is not None and v < lo) or (hi is not None and v > hi):
                return f'{name}: integer value {v} outside [{lo}, {hi}]'
        if typ == 'combo' and ch is not None and v not in ch:
            return f'{name}: combo value {v!r} not in its choices {ch}'
        if typ == 'array':
            if not isinstance(v, list) or not all(isinstance(x, str) for x in v):
                return f'{name}: array option holds {v!r}'
            if ch and any(x not in ch for x in v):
                return f'{name}: array value {v!r} has members outside its choices {ch}'
        if typ == 'string' and not isinstance(v, str):
            return f'{name}: string option holds {v!r}'
    return None


def intro_check(group: str, sc: dict, root: str, want: T.Dict[str, T.Any], why: str, inproc: bool = True) -> T.Optional[Failure]:
    """after a successful setup in `root`: introspected values == `want` (python values) and all are valid"""
    entries = introspect(root, inproc)
    case = {'kind': 'intro', 'group': group, 'scenario': sc, 'want': want, 'why': why}
    if entries is None:
        return Failure(f'{group}/introspect-failed', case, f'[{group}] {describe(sc)}\n  meson introspect --buildoptions failed')
    bad = intro_invalid(entries)
    if bad:
        return Failure(f'{group}/introspect-invalid-value', case, f'[{group}] {describe(sc)}\n  introspection reports {bad}')
    for name, w in want.items():
        if name in INTRO_NOT_LISTED:
            continue      # completeness of introspection is not part of this property (see report)
        g = entries.get(name, {}).get('value', '<missing>')
        if g != w:
            return Failure(f'{group}/introspect-differs', case,
                           f'[{group}] {describe(sc)}\n  expected introspected {name} = {w!r} ({why})\n  got {g!r}')
    return None


def intro_confirm(f: Failure, root: str, ev: Evidence) -> T.Optional[Failure]:
    c = f.case
    res = run_scenario(c['scenario'], root, inproc=False)
    if res.rc != 0:
        ev.inproc_only += 1
        return None
    g = intro_check(c['group'], c['scenario'], root, c['want'], c['why'], inproc=False)
    if g is None:
        ev.inproc_only += 1
    return g


def py_intro(typ: str, v: T.Any) -> T.Any:
    if typ == 'umask':
        return v if v == 'preserve' else int(v, 8)
    return v


# ---------------------------------------------------------------------------
# (a) subproject order, exhaustive over the 2^8 source subsets

_WORKDIR: T.Optional[str] = None


def _workdir() -> str:
    """private directory of the running shard (below ctx.scratch, which the parent process removes)"""
    global _WORKDIR
    if _WORKDIR is None:
        from harness import core
        _WORKDIR = core.make_scratch('C07w')
    os.makedirs(_WORKDIR, exist_ok=True)
    return _WORKDIR


def _clear_leaky_state() -> None:
    """in-process state that would otherwise grow or leak between runs"""
    try:
        from mesonbuild.interpreter import Interpreter
        Interpreter.set_backend.cache_clear()     # lru_cache on a method keeps every Interpreter alive
    except Exception:
        pass


def _sp_builtin_shard(shard: T.Tuple[str, str, T.Any, T.List[T.Any], int, T.List[int], bool, int], ev: Evidence,
                      fails: T.List[Failure]) -> None:
    from harness import core
    name, typ, default, pool, rot, masks, cross, intro_mod = shard
    root = os.path.join(_workdir(), 'w')
    vals = assign_values(pool, default, rot)
    srcvals = {SRC[i]: canon(typ, vals[i]) for i in range(8)}
    srcvals['default'] = canon(typ, default)
    group = 'sp-order:builtin' + (':cross' if cross else '')
    bucket = Bucket()
    ibucket: T.List[Failure] = []
    for mask in masks:
        sc = sp_cell(name, typ, vals, mask, cross=cross)
        if mask % 3 == 1:
            sc['defaults_form'] = 'dict'
        sc['observe_top'] = [[name, typ]]
        sc['observe_sp'] = [[name, typ]]
        et, wt = fold(TOP_SRC, mask, vals, default)
        es, ws = fold(range(8), mask, vals, default)
        expect = {'top': {name: canon(typ, et)}, 'sp': {name: canon(typ, es)},
                  'winner': {'top:' + name: wt, 'sp:' + name: ws}}
        why = f'last present source of the documented list: top-level {wt}, subproject {ws}'
        f = check_cell(group, sc, expect, why, root, srcvals)
        bucket.add(f, popcount(mask))
        ev.case({'opt': name, 'mask': mask, 'cross': cross}, nontrivial=False,
                cls=f'{group}:{typ}', sample={'opt': name, 'sources': [SRC[i] for i in range(8) if mask >> i & 1],
                                            'expect_top': expect['top'][name], 'expect_sp': expect['sp'][name]})
        if popcount(mask) >= 2:
            ev.add_distinct(1)
        if f is None and mask % 16 == intro_mod:
            g = intro_check(group, sc, root, {name: py_intro(typ, et)}, why)
            ev.event('introspect_compared')
            if g is not None and len(ibucket) < 2:
                ibucket.append(g)
        if mask % 64 == 63:
            _clear_leaky_state()
    bucket.flush(root, ev, fails)
    for g in ibucket:
        h = intro_confirm(g, root, ev)
        if h is not None:
            fails.append(h)
            break


def lit(v: T.Any) -> str:
    """meson literal"""
    if isinstance(v, bool):
        return 'true' if v else 'false'
    if isinstance(v, int):
        return str(v)
    if isinstance(v, list):
        return '[' + ', '.join(mstr(x) for x in v) + ']'
    return mstr(v)


def domain(ptype: str) -> T.Any:
    """admissible printed values of a project option of this type (validity predicate)"""
    if ptype == 'string':
        return {'any': True}
    if ptype == 'boolean':
        return ['true', 'false']
    if ptype == 'integer':
        return [str(i) for i in range(-5, 21)]
    if ptype == 'combo':
        return list(PTYPES['combo']['pool'])
    if ptype == 'feature':
        return ['enabled', 'disabled', 'auto']
    return {'array_subset': ['a', 'b', 'c', 'd']}


def sp_project_cell(ptype: str, variant: str, mask: int, rot: int, cross: bool) -> T.Optional[T.Tuple[dict, dict, str, dict]]:
    """(scenario, expect, why, srcvals) or None when the documentation does not define the cell"""
    p = PTYPES[ptype]
    typ = p['typ']
    name = PNAME[ptype]
    yielding = variant.startswith('yield')
    parent = variant.split('-')[-1]          # none | same | difftype
    if parent == 'none' and mask & 0b1101:
        return None                           # sources 1,3,4 would name an option the top project does not have
    vals = assign_values(p['pool'], p['default'], rot)
    pvals: T.List[T.Any] = list(vals)
    pdefault: T.Any = p['pool'][-1]
    ptyp = typ
    sc = new_scenario(cross)
    sc['sp_options'] = pdecl(name, ptype, True, yielding)
    if parent == 'same':
        sc['top_options'] = f"option('{name}', {p['decl']}, value: {lit(pdefault)})\n"
    elif parent.startswith('difftype'):
        pt = (DIFFTYPE_PARENT2 if parent == 'difftype2' else DIFFTYPE_PARENT)[ptype]
        ptyp = PTYPES[pt]['typ']
        if pt == 'string':
            pdefault, pvals = 'zz-parent', ['zz1', '', 'zz3', 'zz4', '', '', '', '']
        elif pt == 'feature':
            # a feature option is implemented as a kind of combo: related types, still different ones
            pdefault, pvals = 'enabled', ['disabled', 'auto', 'enabled', 'disabled', 'auto', 'auto', 'auto', 'auto']
        elif pt == 'combo':
            pdefault, pvals = 'ten', ['nine', 'eight', 'seven', 'six', 'five', 'four', 'two', 'one']
        else:
            pdefault, pvals = True, [False, None, True, False, None, None, None, None]
        decl = PTYPES[pt]['decl'] if pt == 'combo' else f"type: '{pt}'"
        sc['top_options'] = f"option('{name}', {decl}, value: {lit(pdefault)})\n"
    for i in range(8):
        if mask >> i & 1:
            add_source(sc, name, ptyp if i in TOP_SRC else typ, i, pvals[i] if i in TOP_SRC else vals[i], project_opt=True)
    sc['observe_sp'] = [[name, typ]]
    if (mask + rot) % 3 == 1:
        sc['defaults_form'] = 'dict'
    expect: dict = {'top': {}, 'sp': {}, 'winner': {}}
    if parent != 'none':
        sc['observe_top'] = [[name, ptyp]]
        et, wt = fold(TOP_SRC, mask, pvals, pdefault)
        expect['top'][name] = canon(ptyp, et)
        expect['winner']['top:' + name] = wt
    es, ws = fold(SUB_LEVEL, mask, vals, p['default'])
    has_sub = any(mask >> i & 1 for i in SUB_LEVEL)
    if yielding and parent != 'none':
        if has_sub and SRC.index(ws) not in SP_SPELLED:
            return None                       # yield vs. the subproject's own / subproject() default_options: docs silent
        if not has_sub:
            if parent == 'same':
                expect['sp'][name] = expect['top'][name]
                ws = 'parent:' + expect['winner']['top:' + name]
                why = 'yield: true and the superproject has an option of that name => get_option returns the superproject value (Build-options.md)'
            else:
                expect['sp'][name] = domain(ptype)
                ws = 'any-valid'
                why = 'a value must satisfy the type/choices/range of the option it is returned for'
        else:
            expect['sp'][name] = canon(typ, es)
            why = '`sp:opt=value` sets a yielding option separately from the option it yields to (Build-options.md, since 1.8.0)'
    else:
        expect['sp'][name] = canon(typ, es)
        why = f'last present source that can name the subproject option: {ws}; unqualified `opt` on the command line / machine file / parent default_options names the parent option'
    expect['winner']['sp:' + name] = ws
    srcvals = {SRC[i]: canon(typ, vals[i]) for i in SUB_LEVEL}
    srcvals['default'] = canon(typ, p['default'])
    return sc, expect, why, srcvals


def _sp_project_shard(shard: T.Tuple[str, str, int, T.List[int], bool, int], ev: Evidence, fails: T.List[Failure]) -> None:
    from harness import core
    ptype, variant, rot, masks, cross, intro_mod = shard
    root = os.path.join(_workdir(), 'w')
    group = f'sp-order:project:{variant}' + (':cross' if cross else '')
    bucket = Bucket()
    ibucket: T.List[Failure] = []
    name = PNAME[ptype]
    for mask in masks:
        cell = sp_project_cell(ptype, variant, mask, rot, cross)
        if cell is None:
            ev.exclude('unqualified source for an option the top project does not declare' if variant.endswith('none')
                       else 'yielding option set only by sub default_options / subproject(default_options) (docs silent)')
            continue
        sc, expect, why, srcvals = cell
        f = check_cell(group, sc, expect, why, root, srcvals)
        bucket.add(f, popcount(mask))
        ev.case({'ptype': ptype, 'variant': variant, 'mask': mask, 'cross': cross}, cls=f'{group}:{ptype}',
                sample={'option': sc['sp_options'].strip(), 'parent': sc.get('top_options', '').strip(),
                        'sources': [SRC[i] for i in range(8) if mask >> i & 1], 'expect': {k: expect[k] for k in ('top', 'sp')}})
        if popcount(mask) >= 2:
            ev.add_distinct(1)
        if f is None and mask % 16 == intro_mod and not variant.startswith('yield') and isinstance(expect['sp'][name], str):
            es, _ = fold(SUB_LEVEL, mask, assign_values(PTYPES[ptype]['pool'], PTYPES[ptype]['default'], rot), PTYPES[ptype]['default'])
            g = intro_check(group, sc, root, {'sp:' + name: es}, why)
            ev.event('introspect_compared')
            if g is not None and len(ibucket) < 2:
                ibucket.append(g)
        if mask % 64 == 63:
            _clear_leaky_state()
    bucket.flush(root, ev, fails)
    for g in ibucket:
        h = intro_confirm(g, root, ev)
        if h is not None:
            fails.append(h)
            break


# ---------------------------------------------------------------------------
# (b) top-level order: {declared default (explicit | implicit)} x 2^3 {project(default_options), machine file, command line}

def _top_shard(shard: T.Tuple[T.List[T.Any], bool, int], ev: Evidence, fails: T.List[Failure]) -> None:
    from harness import core
    entries, cross, rot = shard
    root = os.path.join(_workdir(), 'w')
    bucket = Bucket()
    ibucket: T.List[Failure] = []
    for entry in entries:
        if entry[0] in ('builtin', 'builtin-ninja'):
            _, name, typ, default, pool = entry
            project_opt, decl, sub_same = False, None, True
            group = ('top-order:builtin' if entry[0] == 'builtin' else 'top-order:backend-option') + (':cross' if cross else '')
        else:
            _, ptype, explicit = entry
            p = PTYPES[ptype]
            name, typ, pool = PNAME[ptype], p['typ'], p['pool']
            default = p['default'] if explicit else p['implicit']
            project_opt, decl, sub_same = True, pdecl(name, ptype, explicit), False
            group = 'top-order:project' + ('' if explicit else ':implicit-default') + (':cross' if cross else '')
        vals = assign_values(pool, default, rot)
        srcvals = {SRC[i]: canon(typ, vals[i]) for i in TOP_SRC}
        srcvals['default'] = canon(typ, default)
        for bits in range(8):
            mask = (bits & 1) | (bits >> 1 & 1) << 2 | (bits >> 2 & 1) << 3
            sc = sp_cell(name, typ, vals, mask, project_opt=project_opt, cross=cross)
            if entry[0] == 'builtin-ninja':
                sc['backend'] = 'ninja'
            if decl:
                sc['top_options'] = decl
            if typ != 'umask':
                sc['observe_top'] = [[name, typ]]
                if sub_same:
                    sc['observe_sp'] = [[name, typ]]
            et, wt = fold(TOP_SRC, mask, vals, default)
            expect: dict = {'top': {}, 'sp': {}, 'winner': {'top:' + name: wt, 'sp:' + name: wt}}
            if typ != 'umask':
                expect['top'][name] = canon(typ, et)
                if sub_same:
                    expect['sp'][name] = canon(typ, et)     # "Per subproject: no": one global value
            why = f'command line > machine file > project(default_options) > declared default: {wt}'
            f = check_cell(group, sc, expect, why, root, srcvals)
            bucket.add(f, popcount(mask))
            ev.case({'opt': name, 'mask': mask, 'cross': cross, 'decl': decl}, cls=f'{group}:{typ}',
                    sample={'opt': name, 'decl': (decl or '').strip(), 'sources': [SRC[i] for i in TOP_SRC if mask >> i & 1],
                            'expect': canon(typ, et)})
            if popcount(mask) >= 2:
                ev.add_distinct(1)
            if f is None and (typ == 'umask' or bits == (rot + len(name)) % 8):
                g = intro_check(group, sc, root, {name: py_intro(typ, et)}, why)
                ev.event('introspect_compared')
                if g is not None and len(ibucket) < 2:
                    ibucket.append(g)
        _clear_leaky_state()
    bucket.flush(root, ev, fails)
    for g in ibucket:
        h = intro_confirm(g, root, ev)
        if h is not None:
            fails.append(h)
            break


# ---------------------------------------------------------------------------
# (c) derived defaults

# Builtin-options.md "Details for buildtype": buildtype -> (debug, optimization)
BT_TABLE = {'plain': (False, 'plain'), 'debug': (True, '0'), 'debugoptimized': (True, '2'), 'release': (False, '3'),
            'minsize': (True, 's')}
BT_NAMES = list(BT_TABLE)


def derived_bt_cell(B: T.Optional[int], D: T.Optional[int], O: T.Optional[int], k: int, cross: bool = False,
                    known_class: bool = False) -> T.Tuple[dict, dict, str, int]:
    """buildtype from source B, explicit debug from D, explicit optimization from O (None = not given).
    returns (scenario, expect, why, number of (view, option) pairs excluded)"""
    bt = BT_NAMES[k % 5]
    dbg = not BT_TABLE[bt][0]
    opt = [o for o in ('g', '1', '2', '3') if o != BT_TABLE[bt][1]][k % 3]
    sc = new_scenario(cross)
    # buildtype is listed first inside every source (the other order is finding derived/buildtype-listed-after-explicit...)
    if B is not None:
        add_source(sc, 'buildtype', 'combo', B, bt)
    if D is not None:
        add_source(sc, 'debug', 'bool', D, dbg)
    if O is not None:
        add_source(sc, 'optimization', 'combo', O, opt)
    if k % 2:
        sc['cmdline'].reverse()     # the command line is order independent (explicit values win in either order)
    obs = [['debug', 'bool'], ['optimization', 'combo']]
    sc['observe_top'] = obs + ([['buildtype', 'combo']] if D is None and O is None else [])
    sc['observe_sp'] = sc['observe_top']
    expect: dict = {'top': {}, 'sp': {}, 'winner': {}}
    excluded = 0
    for view, srcs in (('top', TOP_SRC), ('sp', list(range(8)))):
        b = B if B in srcs else None
        ebt = bt if b is not None else 'debug'
        if D is None and O is None:
            expect[view]['buildtype'] = ebt
        for oname, typ, S, val, col in (('debug', 'bool', D, dbg, 0), ('optimization', 'combo', O, opt, 1)):
            s = S if S in srcs else None
            if s is None:
                expect[view][oname] = canon(typ, BT_TABLE[ebt][col])
                expect['winner'][f'{view}:{oname}'] = f'buildtype={ebt}'
            elif b is None or s >= b:
                if not known_class and b is not None and b in SUB_LEVEL:
                    excluded += 1      # known finding derived/sp-buildtype-overrides-explicit
                    continue
                expect[view][oname] = canon(typ, val)
                expect['winner'][f'{view}:{oname}'] = 'explicit:' + SRC[s]
            else:
                excluded += 1          # explicit value from a lower-priority source than buildtype: two readings
    why = ('buildtype sets debug/optimization per the table in Builtin-options.md unless they are given explicitly '
           '(explicit value from a source of equal or higher priority than the one that gave buildtype)')
    return sc, expect, why, excluded


def _derived_bt_shard(shard: T.Tuple[T.List[T.Tuple[T.Optional[int], T.Optional[int], T.Optional[int], int]], bool], ev: Evidence,
                      fails: T.List[Failure]) -> None:
    from harness import core
    cells, cross = shard
    root = os.path.join(_workdir(), 'w')
    group = 'derived:buildtype' + (':cross' if cross else '')
    bucket = Bucket()
    for n, (B, D, O, k) in enumerate(cells):
        sc, expect, why, excl = derived_bt_cell(B, D, O, k, cross)
        if excl:
            ev.exclude('explicit debug/optimization from a lower-priority source than buildtype, or known finding '
                       'derived/sp-buildtype-overrides-explicit (per view and option)', excl)
        if not expect['top'] and not expect['sp']:
            continue
        f = check_cell(group, sc, expect, why, root)
        bucket.add(f, sum(x is not None for x in (B, D, O)))
        ev.case([B, D, O, k, cross], nontrivial=sum(x is not None for x in (B, D, O)) >= 2, cls=group,
                sample={'buildtype_from': None if B is None else SRC[B], 'debug_from': None if D is None else SRC[D],
                        'optimization_from': None if O is None else SRC[O], 'expect': {k2: expect[k2] for k2 in ('top', 'sp')}})
        if n % 64 == 63:
            _clear_leaky_state()
    bucket.flush(root, ev, fails)


# (c2) the same rule on an already configured directory: `meson configure` / `meson setup --reconfigure` with buildtype and explicit
# debug / optimization on ONE command line, in every order ("unless they are given explicitly": where on the command line
# the explicit value stands is not part of the rule)

def btdir_cells() -> T.List[T.Tuple[str, str, T.Tuple[str, ...]]]:
    out = []
    for cmd in ('configure', 'reconfigure'):
        for bt in BT_NAMES:
            for names in (('buildtype', 'debug'), ('buildtype', 'optimization'), ('buildtype', 'debug', 'optimization')):
                for order in itertools.permutations(names):
                    out.append((cmd, bt, order))
    return out


def check_btdir(cell: T.Sequence[T.Any], root: str, inproc: bool = True) -> T.Optional[Failure]:
    from harness import mesondrv
    cmd, bt, order = cell[0], cell[1], tuple(cell[2])
    dbg = not BT_TABLE[bt][0]
    opt = [o for o in ('g', '1', '2', '3') if o != BT_TABLE[bt][1]][len(order) % 3]
    vals = {'buildtype': bt, 'debug': 'true' if dbg else 'false', 'optimization': opt}
    sc = new_scenario(False)
    sc['with_sp'] = False
    res = run_scenario(sc, root, inproc=inproc)
    if res.rc != 0:
        raise HarnessError('default setup failed: ' + res.text[-400:])
    dargs = [f'-D{n}={vals[n]}' for n in order]
    bdir = os.path.join(root, 'build')
    args = ['configure'] + dargs + [bdir] if cmd == 'configure' else ['setup', '--reconfigure'] + dargs + [bdir, os.path.join(root, 'src')]
    r = mesondrv.run_inproc(args) if inproc else mesondrv.run_sub(args)
    fcase = {'kind': 'btdir', 'cell': [cmd, bt, list(order)]}
    shown = f'default `meson setup`, then `meson {" ".join(args[:-1] if cmd == "configure" else args[:-2])}`'
    if r.rc != 0:
        return Failure(f'derived-dir/{cmd}:command-fails', fcase, f'{shown} failed: {error_lines(r)}')
    entries = introspect(root, inproc)
    if entries is None:
        return Failure(f'derived-dir/{cmd}:introspect-fails', fcase, f'{shown}: meson introspect --buildoptions fails afterwards')
    want = {'buildtype': bt,
            'debug': dbg if 'debug' in order else BT_TABLE[bt][0],
            'optimization': opt if 'optimization' in order else BT_TABLE[bt][1]}
    got = {n: entries.get(n, {}).get('value', '<missing>') for n in want}
    bad = [n for n in want if got[n] != want[n]]
    if bad:
        kind = 'explicit-value-lost' if any(n in order for n in bad if n != 'buildtype') else 'not-derived'
        return Failure(f'derived-dir/{cmd}:{kind}', fcase,
                       f'{shown}: {", ".join(f"{n} is {got[n]!r}, expected {want[n]!r}" for n in bad)} (buildtype sets debug/optimization per the '
                       'table in Builtin-options.md unless they are given explicitly - here on the same command line)')
    return None


def _btdir_shard(cells: T.List[T.Tuple[str, str, T.Tuple[str, ...]]], ev: Evidence, fails: T.List[Failure]) -> None:
    root = os.path.join(_workdir(), 'w')
    seen: T.Set[str] = set()
    for n, cell in enumerate(cells):
        f = check_btdir(cell, root)
        if f is not None:
            f2 = check_btdir(cell, root, inproc=False)      # confirmed in fresh processes before it counts
            if f2 is None:
                ev.inproc_only += 1
            elif f2.sig not in seen:
                seen.add(f2.sig)
                fails.append(f2)
        ev.case(list(cell[:2]) + [list(cell[2])], nontrivial=True, cls='derived:buildtype:configured-dir:' + cell[0],
                sample={'command': cell[0], 'buildtype': cell[1], 'order_on_the_command_line': list(cell[2])})
        if n % 32 == 31:
            _clear_leaky_state()


# Builtin-options.md "Universal options": prefix-dependent defaults, else the Directories table
PREFIX_DIRS = {'sysconfdir': {'/usr': '/etc', None: 'etc'},
               'localstatedir': {'/usr': '/var', '/usr/local': '/var/local', None: 'var'},
               'sharedstatedir': {'/usr': '/var/lib', '/usr/local': '/var/local/lib', None: 'com'}}
PREFIXES = ['/usr', '/usr/local', '/opt/x', '/']


def derived_prefix_cell(pmask: int, E: T.Optional[int], rot: int, cross: bool = False) -> T.Tuple[dict, dict, str]:
    """prefix from every top-level source in pmask (bits over TOP_SRC), the three directories explicit from source E"""
    sc = new_scenario(cross)
    pvals: T.List[T.Any] = [None] * 8
    for j, i in enumerate(TOP_SRC):
        pvals[i] = PREFIXES[(rot + j) % 4]
    mask = 0
    for j, i in enumerate(TOP_SRC):
        if pmask >> j & 1:
            mask |= 1 << i
            # the same directory may be spelled with a trailing slash (stored without it: unittests pin sanitize_prefix());
            # the prefix-dependent defaults belong to the directory, not to the spelling
            spelled = pvals[i] + '/' if (rot + j) % 3 == 1 and pvals[i] != '/' else pvals[i]
            add_source(sc, 'prefix', 'str', i, spelled)
    prefix, wp = fold(TOP_SRC, mask, pvals, '/usr/local')
    expect: dict = {'top': {'prefix': prefix}, 'sp': {'prefix': prefix}, 'winner': {}}
    for n, (d, table) in enumerate(sorted(PREFIX_DIRS.items())):
        if E is not None:
            v = ['my' + d, '/outside/' + d][(rot + n) % 2]       # relative, or absolute outside of every prefix used
            add_source(sc, d, 'str', E, v)
            want = v
        else:
            want = table.get(prefix, table[None])
        expect['top'][d] = want
        expect['sp'][d] = want
    sc['observe_top'] = [['prefix', 'str']] + [[d, 'str'] for d in sorted(PREFIX_DIRS)]
    sc['observe_sp'] = sc['observe_top']
    why = (f'prefix {prefix} ({wp}); directories not given explicitly take the prefix-dependent default documented in '
           'Builtin-options.md (/usr: /etc, /var, /var/lib; /usr/local: etc, /var/local, /var/local/lib; else etc, var, com)')
    return sc, expect, why


def _derived_prefix_shard(shard: T.Tuple[T.List[T.Tuple[int, T.Optional[int], int]], bool], ev: Evidence, fails: T.List[Failure]) -> None:
    from harness import core
    cells, cross = shard
    root = os.path.join(_workdir(), 'w')
    group = 'derived:prefix' + (':cross' if cross else '')
    bucket = Bucket()
    for pmask, E, rot in cells:
        sc, expect, why = derived_prefix_cell(pmask, E, rot, cross)
        f = check_cell(group, sc, expect, why, root)
        bucket.add(f, popcount(pmask) + (E is not None))
        ev.case([pmask, E, rot, cross], nontrivial=popcount(pmask) + (E is not None) >= 2, cls=group,
                sample={'prefix_sources': [SRC[i] for j, i in enumerate(TOP_SRC) if pmask >> j & 1],
                        'dirs_explicit_from': None if E is None else SRC[E], 'expect': expect['top']})
    _clear_leaky_state()
    bucket.flush(root, ev, fails)


# ---------------------------------------------------------------------------
# (d) validity: Hypothesis values, valid and invalid, through every channel

# (where, name, type, spec)   spec: choices | (min, max) | None
VTARGETS: T.List[T.Tuple[str, str, str, T.Any]] = [
    ('top', 'unity_size', 'int', (2, None)),
    ('sp', 'unity_size', 'int', (2, None)),
    ('top', 'python.bytecompile', 'int', (-1, 2)),
    ('top', 'warning_level', 'combo', ['0', '1', '2', '3', 'everything']),
    ('sp', 'default_library', 'combo', ['shared', 'static', 'both']),
    ('top', 'buildtype', 'combo', ['plain', 'debug', 'debugoptimized', 'release', 'minsize', 'custom']),
    ('top', 'wrap_mode', 'combo', ['default', 'nofallback', 'nodownload', 'forcefallback', 'nopromote']),
    ('top', 'werror', 'bool', None),
    ('sp', 'werror', 'bool', None),
    ('top', 'auto_features', 'feature', None),
    ('top', 'install_umask', 'umask', None),
    ('top', 'mystr', 'str', None), ('sp', 'mystr', 'str', None),
    ('top', 'mybool', 'bool', None), ('sp', 'mybool', 'bool', None),
    ('top', 'myint', 'int', (-5, 20)), ('sp', 'myint', 'int', (-5, 20)),
    ('top', 'myint0', 'int', (0, 9)), ('sp', 'myintneg', 'int', (-9, 0)), ('top', 'myintneg', 'int', (-9, 0)), ('sp', 'myintmin0', 'int', (0, None)),
    ('top', 'mycomb', 'combo', PTYPES['combo']['pool']), ('sp', 'mycomb', 'combo', PTYPES['combo']['pool']),
    ('top', 'myarr', 'array', ['a', 'b', 'c', 'd']), ('sp', 'myarr', 'array', ['a', 'b', 'c', 'd']),
    ('top', 'myfeat', 'feature', None), ('sp', 'myfeat', 'feature', None),
]
ALL_PROJECT_OPTIONS = ''.join(pdecl(PNAME[pt], pt) for pt in PTYPES)
# integer options with a bound of exactly zero on one side (a bound is a bound, whatever its value)
ALL_PROJECT_OPTIONS += ("option('myint0', type: 'integer', min: 0, max: 9, value: 4)\n"
                        "option('myintneg', type: 'integer', min: -9, max: 0, value: -4)\n"
                        "option('myintmin0', type: 'integer', min: 0, value: 4)\n")
CHANNELS = {'top': {'cmdline': 3, 'mfile': 2, 'top_default': 0, 'configure': -1},
            'sp': {'cmdline': 7, 'mfile': 6, 'top_default': 4, 'spcall': 5, 'sub_default': 1, 'configure': -1}}
TEXT_ALPHABET = list("abcxyzABC0189 _-+.:;/\\'\"=,[]#@$%{}()!?*&|<>~^`") + ['é', 'ß', 'Ω']


def value_strategy(typ: str, spec: T.Any) -> T.Any:
    """-> (raw string, is_valid, expected python value when valid)"""
    from hypothesis import strategies as st
    text = st.text(alphabet=st.sampled_from(TEXT_ALPHABET), max_size=8).filter(lambda s: s == s.strip())

    def inv(strat: T.Any, pred: T.Callable[[str], bool]) -> T.Any:
        return strat.filter(pred).map(lambda s: (s, False, None))

    if typ == 'bool':
        return st.one_of(st.sampled_from([('true', True, True), ('false', True, False)]),
                         inv(st.one_of(st.sampled_from(['yes', 'no', '1', '0', '', 'on', 'off', 't', 'f', 'tru', 'truee', 'enabled',
                                                        'disabled', 'auto', 'none', 'true,false', 'nottrue']), text),
                             lambda s: s.lower() not in ('true', 'false')))
    if typ == 'int':
        lo, hi = spec
        vlo, vhi = (lo if lo is not None else -10**6), (hi if hi is not None else 10**6)
        outs = []
        if lo is not None:
            outs += [st.integers(lo - 10**6, lo - 1), st.sampled_from([lo - 1, lo - 2])]       # far outside, and right next to the bound
        if hi is not None:
            outs += [st.integers(hi + 1, hi + 10**6), st.sampled_from([hi + 1, hi + 2])]

        def not_int(s: str) -> bool:
            try:
                int(s)
            except ValueError:
                return True
            return False        # spellings python accepts but the docs do not mention (' 5', '+5', '1_0', '٣'): excluded

        return st.one_of(st.integers(vlo, vhi).map(lambda n: (str(n), True, n)),
                         st.sampled_from([vlo, vhi] if hi is not None or lo is not None else [0]).map(lambda n: (str(n), True, n)),
                         st.one_of(*outs).map(lambda n: (str(n), False, None)),
                         # a boolean is not an integer (through a machine file it arrives as a native boolean, see validity_scenario)
                         st.sampled_from([('true', False, None), ('false', False, None)]),
                         inv(st.one_of(st.sampled_from(['abc', '1.5', '', '0x10', '1e3', '--1', '1 2', 'one', 'true', '3,4', '[3]']), text), not_int))
    if typ == 'combo':
        ch = list(spec)
        near = [c.upper() for c in ch if c.upper() != c] + [c + 'x' for c in ch] + [ch[0] + ',' + ch[1], '']
        return st.one_of(st.sampled_from(ch).map(lambda c: (c, True, c)),
                         inv(st.one_of(st.sampled_from(near), text), lambda s: s not in ch))
    if typ == 'feature':
        ch = ['enabled', 'disabled', 'auto']
        return st.one_of(st.sampled_from(ch).map(lambda c: (c, True, c)),
                         inv(st.one_of(st.sampled_from(['true', 'false', 'yes', '', 'Enabled', 'AUTO', 'on', 'enable', 'auto,enabled']), text),
                             lambda s: s not in ch))
    if typ == 'umask':
        def okform(n: int, w: int) -> str:
            return format(n, f'0{w}o')
        return st.one_of(st.just(('preserve', True, 'preserve')),
                         st.tuples(st.integers(0, 0o777), st.sampled_from([3, 4])).map(lambda t: (okform(*t), True, t[0])),
                         st.sampled_from(['1000', '7777', '0888', '999', '089', 'abc', '', '-001', 'Preserve', 'rwx', '0.22', '1777'])
                         .map(lambda s: (s, False, None)))
    if typ == 'array':
        ch = list(spec)
        good = st.lists(st.sampled_from(ch), unique=True, max_size=4)
        bad_member = st.sampled_from(['e', 'x', 'ab', 'A', 'aa', 'd1', 'abcd'])
        bad = st.tuples(st.lists(st.sampled_from(ch), unique=True, max_size=3), bad_member, st.integers(0, 3)).map(
            lambda t: t[0][:t[2]] + [t[1]] + t[0][t[2]:])
        form = st.sampled_from(['comma', 'bracket'])

        def render(lst: T.List[str], f: str) -> str:
            return ','.join(lst) if f == 'comma' else '[' + ', '.join("'" + x + "'" for x in lst) + ']'
        return st.one_of(st.tuples(good, form).map(lambda t: (render(*t), True, t[0])),
                         st.tuples(bad, form).map(lambda t: (render(*t), False, t[0])))
    return text.map(lambda s: (s, True, s))        # free-form string: everything is valid


def validity_strategy() -> T.Any:
    from hypothesis import strategies as st

    def for_target(i: int) -> T.Any:
        where, name, typ, spec = VTARGETS[i]
        chans = sorted(CHANNELS[where])
        if where == 'sp' and not name.startswith('my'):
            chans.remove('configure')          # per-subproject values of built-in options are not listed by introspection
        return st.tuples(st.just(i), st.sampled_from(chans), value_strategy(typ, spec), st.booleans())
    return st.integers(0, len(VTARGETS) - 1).flatmap(for_target).map(
        lambda t: {'target': t[0], 'channel': t[1], 'raw': t[2][0], 'valid': t[2][1], 'value': t[2][2], 'native_literal': t[3]})


def validity_scenario(case: dict) -> T.Tuple[dict, str, str, str]:
    where, name, typ, _ = VTARGETS[case['target']]
    sc = new_scenario(False)
    sc['top_options'] = ALL_PROJECT_OPTIONS
    sc['sp_options'] = ALL_PROJECT_OPTIONS
    project_opt = name.startswith('my')
    ch = case['channel']
    if ch != 'configure':
        src = CHANNELS[where][ch]
        if ch == 'mfile' and (typ == 'array' or (case['valid'] and case['native_literal'] and typ in ('bool', 'int'))):
            add_source(sc, name, typ, src, case['value'], project_opt)      # typed machine-file literal
        elif ch not in ('cmdline',) and typ == 'int' and not case['valid'] and case['raw'] in ('true', 'false') and case['native_literal']:
            add_source(sc, name, 'bool', src, case['raw'] == 'true', project_opt)   # unquoted true/false: a native boolean
            if ch != 'mfile':
                sc['defaults_form'] = 'dict'      # ... which default_options can only carry in its dictionary form
        else:
            add_source(sc, name, 'str', src, case['raw'], project_opt)
    if typ != 'umask':
        sc['observe_' + where] = [[name, typ]]
    return sc, where, name, typ


def check_validity(case: dict, root: str, ev: T.Optional[Evidence] = None, inproc: bool = True) -> T.Optional[Failure]:
    from harness import mesondrv
    sc, where, name, typ = validity_scenario(case)
    ch = case['channel']
    group = f'validity/{typ}:{ch}'
    fcase = {'kind': 'validity', **case}
    shown = f'{"sp:" if where == "sp" else ""}{name}={case["raw"]!r} via {ch}'
    res = run_scenario(sc, root, inproc=inproc)
    iname = ('sp:' if where == 'sp' else '') + name
    if ch == 'configure':
        if res.rc != 0:
            raise HarnessError('default setup failed: ' + res.text[-400:])
        before = introspect(root, inproc)
        args = ['configure', f'-D{iname}={case["raw"]}', os.path.join(root, 'build')]
        res = mesondrv.run_inproc(args) if inproc else mesondrv.run_sub(args)
    if res.unhandled:
        return Failure(f'{group}:unhandled-exception', fcase, f'{shown}: python exception instead of a MesonException\n{res.text[-600:]}')
    if not case['valid']:
        if res.rc == 0:
            return Failure(f'{group}:invalid-accepted', fcase, f'{shown} violates the type/choices/range of the option but the command succeeded')
        if 'ERROR' not in res.text:
            return Failure(f'{group}:no-error-message', fcase, f'{shown}: exit status {res.rc} without an ERROR: line\n{res.text[-300:]}')
        if ch == 'configure':
            after = introspect(root, inproc)
            if after is None or before is None or after.get(iname, {}).get('value') != before.get(iname, {}).get('value'):
                return Failure(f'{group}:rejected-but-state-changed', fcase,
                               f'{shown} was rejected but introspection now reports {None if after is None else after.get(iname)}')
            bad = intro_invalid(after)
            if bad:
                return Failure(f'{group}:introspect-invalid-value', fcase, f'after rejected {shown}: {bad}')
        return None
    # valid value: accepted, and read back unchanged
    if res.rc != 0:
        return Failure(f'{group}:valid-rejected', fcase, f'{shown} is a valid value but was rejected: {error_lines(res)}')
    if ch == 'configure' or typ == 'umask':
        entries = introspect(root, inproc)
        got = None if entries is None else entries.get(iname, {}).get('value', '<missing>')
        if got != case['value']:
            return Failure(f'{group}:valid-altered', fcase, f'{shown}: introspection reports {got!r}, expected {case["value"]!r}')
        bad = intro_invalid(entries or {})
        if bad:
            return Failure(f'{group}:introspect-invalid-value', fcase, f'after {shown}: {bad}')
        return None
    want = canon('str' if typ in ('combo', 'feature') else typ, case['value'])
    top, _, sp = observed(res)
    got2 = (sp if where == 'sp' else top).get(name)
    if got2 != want:
        return Failure(f'{group}:valid-altered', fcase, f'{shown}: get_option() gives {got2!r}, expected {want!r}')
    return None


def known_validity_class(case: dict) -> T.Optional[str]:
    """classes excluded from the random campaign because a dedicated probe reports them (genuine findings)"""
    where, name, typ, _ = VTARGETS[case['target']]
    if case['channel'] == 'mfile' and ('\\' in case['raw'] or "'" in case['raw']):
        return 'machine file string containing a backslash or quote (escaping rules not documented)'
    return None


def _validity_shard(shard: T.Tuple[int, int], ev: Evidence, fails: T.List[Failure]) -> None:
    from harness import core
    seed, n = shard
    root = os.path.join(_workdir(), 'w')
    count = [0]

    def check(case: dict) -> T.Optional[Failure]:
        where, name, typ, _ = VTARGETS[case['target']]
        k = known_validity_class(case)
        if k:
            ev.exclude(k)
            return None
        count[0] += 1
        if count[0] % 64 == 0:
            _clear_leaky_state()
        ev.case(case, nontrivial=True, cls=f'validity:{typ}:{"valid" if case["valid"] else "invalid"}:{case["channel"]}',
                sample={'option': ('sp:' if where == 'sp' else '') + name, **{k2: case[k2] for k2 in ('channel', 'raw', 'valid')}})
        f = check_validity(case, root, ev)
        if f is not None:
            g = check_validity(case, root, ev, inproc=False)
            if g is None:
                ev.inproc_only += 1
            return g
        return None

    campaign(validity_strategy(), check, n, seed, fails)


# ---------------------------------------------------------------------------
# (e) per-machine options in a cross build (Builtin-options.md "Specifying options per machine",
#     Machine-files.md: "the values from both a cross file and a native file are used")

PM_VALS = {'host': [['/h1'], None, ['/h3', '/h3b'], ['/h4']], 'build': [['/b1', '/b1b'], None, ['/b3'], ['/b4']]}


def permachine_cell(opt: str, hmask: int, bmask: int) -> T.Tuple[dict, dict, str]:
    sc = new_scenario(True)
    hv, bv = PM_VALS['host'], PM_VALS['build']
    if hmask & 1:
        add_source(sc, opt, 'array', 0, hv[0])
    if hmask & 2:
        add_source(sc, opt, 'array', 2, hv[2])                  # cross file: host machine
    if hmask & 4:
        add_source(sc, opt, 'array', 3, hv[3])
    if bmask & 1:
        add_source(sc, 'build.' + opt, 'array', 0, bv[0])
    if bmask & 2:
        sc['native_for_cross'] = {'built-in options': {opt: as_mfile('array', bv[2])}}   # native file: build machine
    if bmask & 4:
        add_source(sc, 'build.' + opt, 'array', 3, bv[3])
    eh, wh = fold(TOP_SRC, (hmask & 1) | (hmask & 2) << 1 | (hmask & 4) << 1, hv, [])
    eb, wb = fold(TOP_SRC, (bmask & 1) | (bmask & 2) << 1 | (bmask & 4) << 1, bv, [])
    sc['observe_top'] = [[opt, 'array'], ['build.' + opt, 'array']]
    sc['observe_sp'] = sc['observe_top']
    exp = {opt: canon('array', eh), 'build.' + opt: canon('array', eb)}
    expect = {'top': exp, 'sp': dict(exp), 'winner': {'top:' + opt: wh, 'top:build.' + opt: wb, 'sp:' + opt: wh, 'sp:build.' + opt: wb}}
    why = (f'cross build: `{opt}` is the host-machine value (command line > cross file > default_options: {wh}), '
           f'`build.{opt}` the build-machine value (command line > native file > default_options: {wb})')
    return sc, expect, why


def _permachine_shard(shard: T.Tuple[str, T.List[T.Tuple[int, int]]], ev: Evidence, fails: T.List[Failure]) -> None:
    from harness import core
    opt, cells = shard
    root = os.path.join(_workdir(), 'w')
    group = 'per-machine:cross'
    bucket = Bucket()
    for hmask, bmask in cells:
        sc, expect, why = permachine_cell(opt, hmask, bmask)
        f = check_cell(group, sc, expect, why, root)
        bucket.add(f, popcount(hmask) + popcount(bmask))
        ev.case([opt, hmask, bmask], nontrivial=popcount(hmask) + popcount(bmask) >= 2, cls=group,
                sample={'opt': opt, 'host_sources': hmask, 'build_sources': bmask, 'expect': expect['top']})
    _clear_leaky_state()
    bucket.flush(root, ev, fails)


# ---------------------------------------------------------------------------
# (f) the same tables directly against OptionStore (much larger sample).  The store is driven exactly like
#     Interpreter.func_project does (option file -> update_project_options -> initialize_from_*_call); a
#     disagreement only counts when the real `meson setup` shows it too.

def canon_py(v: T.Any) -> str:
    if isinstance(v, bool):
        return 'true' if v else 'false'
    if isinstance(v, list):
        return canon('array', v)
    return str(v)


_OPTFILE_CACHE: T.Dict[str, str] = {}


def direct_eval(sc: dict, tmp: str) -> T.Tuple[T.Optional[str], T.Dict[str, str], T.Dict[str, str]]:
    """(error or None, top view, sp view) computed by OptionStore without running meson"""
    import argparse
    import mesonbuild.interpreter  # noqa: F401  (must be imported before optinterpreter: circular import otherwise)
    from mesonbuild import cmdline, machinefile, optinterpreter
    from mesonbuild.mesonlib import MesonException
    from mesonbuild.options import OptionKey, OptionStore

    def load(text: T.Optional[str], subp: str) -> None:
        if not text:
            return
        path = _OPTFILE_CACHE.get(text)
        if path is None:
            path = os.path.join(tmp, f'opt{len(_OPTFILE_CACHE)}.options')
            with open(path, 'w', encoding='utf-8') as fh:
                fh.write(text)
            _OPTFILE_CACHE[text] = path
        oi = optinterpreter.OptionInterpreter(store, subp)   # type: ignore[arg-type]
        oi.process(path)
        store.update_project_options(oi.options, subp)       # type: ignore[arg-type]

    def defopts(key: str) -> dict:
        if sc.get('defaults_form') == 'dict':
            return {OptionKey.from_string(k): v for k, v in sc.get(key + '_typed', [])}
        return {OptionKey.from_string(s.split('=', 1)[0]): s.split('=', 1)[1] for s in sc.get(key, [])}

    store = OptionStore(bool(sc.get('cross')))
    store.init_builtins()
    parser = argparse.ArgumentParser()
    cmdline.register_builtin_arguments(parser)
    ns = parser.parse_args(list(sc.get('cmdline', [])))
    mopts: dict = {}
    try:
        cmdline.parse_cmd_line_options(ns)    # type: ignore[arg-type]
        secs = {k: v for k, v in (sc.get('mfile') or {}).items() if k != 'host_machine'}
        if secs:
            mpath = os.path.join(tmp, 'direct.ini')
            with open(mpath, 'w', encoding='utf-8') as fh:
                for sec, kv in secs.items():
                    fh.write(f'[{sec}]\n' + ''.join(f'{k} = {v}\n' for k, v in kv.items()))
            for sec, kv in machinefile.parse_machine_files([mpath], tmp).items():
                subp = sec.split(':', 1)[0] if ':' in sec else None
                for k, v in kv.items():
                    key = OptionKey.from_string(k)
                    mopts[key.evolve(subproject=subp) if subp else key] = v
        load(sc.get('top_options'), '')
        store.initialize_from_top_level_project_call(defopts('top_defaults'), ns.cmd_line_options, mopts)
        top = {n: canon_py(store.get_value_for(OptionKey.from_string(n).evolve(subproject=''))) for n, _ in sc.get('observe_top', [])}
        load(sc.get('sp_options'), 'sp')
        store.initialize_from_subproject_call('sp', defopts('call_defaults'), defopts('sp_defaults'),
                                              ns.cmd_line_options, mopts)
        sp = {n: canon_py(store.get_value_for(OptionKey.from_string(n).evolve(subproject='sp'))) for n, _ in sc.get('observe_sp', [])}
        after = {n: canon_py(store.get_value_for(OptionKey.from_string(n).evolve(subproject=''))) for n, _ in sc.get('observe_top', [])}
    except MesonException as e:
        return f'MesonException: {e}', {}, {}
    if after != top:
        return None, after, sp
    return None, top, sp


def direct_check(group: str, sc: dict, expect: dict, why: str, tmp: str, srcvals: T.Optional[T.Dict[str, str]]) -> T.Optional[Failure]:
    err, top, sp = direct_eval(sc, tmp)
    bad = err is not None
    for view, got in (('top', top), ('sp', sp)):
        for name, w in expect.get(view, {}).items():
            if not bad and not admissible(got.get(name), w):
                bad = True
    if not bad:
        return None
    # authoritative: the real command in a fresh interpreter
    return check_cell(group, sc, expect, why, os.path.join(tmp, 'w'), srcvals, inproc=False)


def _direct_shard(shard: T.Tuple[str, T.Any], ev: Evidence, fails: T.List[Failure]) -> None:
    from harness import core
    what, arg = shard
    tmp = _workdir()
    _OPTFILE_CACHE.clear()
    seen: T.Set[str] = set()
    n = nt = store_only = 0

    def one(group: str, sc: dict, expect: dict, why: str, srcvals: T.Optional[T.Dict[str, str]], size: int) -> None:
        nonlocal n, nt, store_only
        n += 1
        nt += size >= 2
        err, top, sp = direct_eval(sc, tmp)
        bad = err is not None or any(not admissible(got.get(nm), w) for view, got in (('top', top), ('sp', sp))
                                     for nm, w in expect.get(view, {}).items())
        if not bad:
            return
        if len(seen) >= 6:
            return
        f = check_cell(group, sc, expect, why, os.path.join(tmp, 'w'), srcvals, inproc=False)
        if f is None:
            store_only += 1
        elif f.sig not in seen:
            seen.add(f.sig)
            fails.append(f)

    if what == 'builtin':
        name, typ, default, pool, rots = arg
        for rot in rots:
            vals = assign_values(pool, default, rot)
            srcvals = {SRC[i]: canon(typ, vals[i]) for i in range(8)}
            srcvals['default'] = canon(typ, default)
            for mask in range(256):
                sc = sp_cell(name, typ, vals, mask)
                if (mask + rot) % 2:
                    sc['defaults_form'] = 'dict'
                sc['observe_top'] = [[name, typ]]
                sc['observe_sp'] = [[name, typ]]
                et, wt = fold(TOP_SRC, mask, vals, default)
                es, ws = fold(range(8), mask, vals, default)
                expect = {'top': {name: canon(typ, et)}, 'sp': {name: canon(typ, es)}, 'winner': {'top:' + name: wt, 'sp:' + name: ws}}
                one('sp-order:builtin', sc, expect, f'last present source of the documented list: top-level {wt}, subproject {ws}',
                    srcvals, popcount(mask))
        ev.case({'direct': what, 'opt': name, 'rotations': list(rots)}, cls='direct:builtin', n=n)
    elif what == 'project':
        ptype, variant, rots = arg
        for rot in rots:
            for mask in range(256):
                cell = sp_project_cell(ptype, variant, mask, rot, False)
                if cell is None:
                    continue
                sc, expect, why, srcvals = cell
                one(f'sp-order:project:{variant}', sc, expect, why, srcvals, popcount(mask))
        ev.case({'direct': what, 'ptype': ptype, 'variant': variant, 'rotations': list(rots)}, cls='direct:project', n=n)
    else:
        for B, D, O, k in arg:
            sc, expect, why, _ = derived_bt_cell(B, D, O, k)
            if expect['top'] or expect['sp']:
                one('derived:buildtype', sc, expect, why, None, sum(x is not None for x in (B, D, O)))
        ev.case({'direct': what, 'cells': len(arg)}, cls='direct:derived', n=n)
    ev.add_distinct(nt)
    ev.event('direct_optionstore_cells', n)
    if store_only:
        ev.event('direct_disagreement_not_reproduced_by_cli', store_only)


# ---------------------------------------------------------------------------
# compiler options (need the C compiler: thorough tier)

COMPILER_OPTS = [('c_std', 'combo', 'none', ['c89', 'c99', 'c11', 'c17', 'gnu89', 'gnu99', 'gnu11', 'gnu17']),
                 ('c_args', 'array', [], [['-DA1'], ['-DA2'], ['-DA3'], ['-DA4'], ['-DA5'], ['-DA6'], ['-DA7'], ['-DA8']])]


# base options that only exist once a compiled language is present (registered late, after the sources were read): boolean
# options whose documented default is true, so that the value a source gives them is the falsy one (quick tier too)
LATE_BASE_BOOL = ['b_pch', 'b_staticpic', 'b_asneeded', 'b_lundef']


def _latebase_shard(shard: T.Tuple[str, T.List[int], int], ev: Evidence, fails: T.List[Failure]) -> None:
    name, masks, flip = shard
    root = os.path.join(_workdir(), 'w')
    vals = [(i % 2 == 1) != bool(flip) for i in range(8)]          # alternating, starting with False (flip: True)
    srcvals = {SRC[i]: canon('bool', vals[i]) for i in range(8)}
    srcvals['default'] = canon('bool', True)
    group = 'top-order:late-base-option'
    bucket = Bucket()
    for mask in masks:
        sc = sp_cell(name, 'bool', vals, mask)
        sc['langs'] = ['c']
        sc['observe_top'] = [[name, 'bool']]
        if (mask + flip) % 2:
            sc['defaults_form'] = 'dict'
        et, wt = fold(TOP_SRC, mask, vals, True)
        expect = {'top': {name: canon('bool', et)}, 'sp': {}, 'winner': {'top:' + name: wt}}
        f = check_cell(group, sc, expect, f'last present source of the documented list (command line, machine file, default_options, default): {wt}', root, srcvals)
        bucket.add(f, popcount(mask))
        ev.case({'opt': name, 'mask': mask, 'flip': flip}, nontrivial=True, cls=f'{group}:{name}',
                sample={'opt': name, 'sources': [SRC[i] for i in range(8) if mask >> i & 1], 'expect_top': expect['top'][name]})
        _clear_leaky_state()
    bucket.flush(root, ev, fails)


def _compiler_shard(shard: T.Tuple[str, str, T.Any, T.List[T.Any], int, T.List[int]], ev: Evidence, fails: T.List[Failure]) -> None:
    name, typ, default, pool, rot, masks = shard
    root = os.path.join(_workdir(), 'w')
    vals = assign_values(pool, default, rot)
    srcvals = {SRC[i]: canon(typ, vals[i]) for i in range(8)}
    srcvals['default'] = canon(typ, default)
    group = 'sp-order:compiler'
    bucket = Bucket()
    sp_only = rot >= 100          # the language is used by the subproject only (the top-level project cannot read the option)
    if sp_only:
        group = 'sp-order:compiler-sp-only'
    for mask in masks:
        sc = sp_cell(name, typ, vals, mask)
        es, ws = fold(range(8), mask, vals, default)
        if sp_only:
            sc['sp_langs'] = ['c']
            sc['observe_sp'] = [[name, typ]]
            expect = {'top': {}, 'sp': {name: canon(typ, es)}, 'winner': {'sp:' + name: ws}}
            wt = 'n/a'
        else:
            sc['langs'] = ['c']
            sc['observe_top'] = [[name, typ]]
            sc['observe_sp'] = [[name, typ]]
            et, wt = fold(TOP_SRC, mask, vals, default)
            expect = {'top': {name: canon(typ, et)}, 'sp': {name: canon(typ, es)}, 'winner': {'top:' + name: wt, 'sp:' + name: ws}}
        f = check_cell(group, sc, expect, f'last present source of the documented list: top-level {wt}, subproject {ws}', root, srcvals)
        bucket.add(f, popcount(mask))
        ev.case({'opt': name, 'mask': mask}, cls=f'{group}:{name}',
                sample={'opt': name, 'sources': [SRC[i] for i in range(8) if mask >> i & 1], 'expect_sp': expect['sp'][name]})
        if popcount(mask) >= 2:
            ev.add_distinct(1)
        _clear_leaky_state()
    bucket.flush(root, ev, fails)


# ---------------------------------------------------------------------------
# dedicated probes for the confirmed findings (their classes are excluded from the campaigns above)

def probe_case(name: str) -> T.Tuple[str, dict, dict, str]:
    """(signature, scenario, expect, why)"""
    if name == 'sp-buildtype-overrides-explicit':
        sc, expect, why, _ = derived_bt_cell(7, 7, None, 3, known_class=True)     # -Dsp:buildtype=release -Dsp:debug=true
        return ('derived/sp-buildtype-overrides-explicit', sc, {'top': {}, 'sp': {'debug': expect['sp']['debug']}, 'winner': {}},
                'debug is given explicitly for the subproject on the command line, so buildtype must not set it')
    if name == 'buildtype-listed-after-explicit':
        sc = new_scenario()
        sc['top_defaults'] = ['debug=true', 'buildtype=release']
        sc['observe_top'] = [['debug', 'bool'], ['optimization', 'combo']]
        return ('derived/buildtype-listed-after-explicit-overrides-it', sc, {'top': {'debug': 'true', 'optimization': '3'}, 'sp': {}, 'winner': {}},
                'debug is given explicitly in the same default_options list, so buildtype must not set it (on the command line the order does not matter)')
    if name == 'builtin-empty-string-becomes-dot':
        sc = new_scenario()
        sc['cmdline'] = ['-Dforce_fallback_for=', '-Dlicensedir=']
        sc['observe_top'] = [['force_fallback_for', 'array'], ['licensedir', 'str']]
        return ('value/builtin-empty-string-becomes-dot', sc, {'top': {'force_fallback_for': '[]', 'licensedir': ''}, 'sp': {}, 'winner': {}},
                '`-Dopt=` passes an empty list (Build-options.md "Arrays"); licensedir is documented as empty by default and is set to that very value')
    raise HarnessError(f'unknown probe {name}')


# 'buildtype-listed-after-explicit' (default_options: ['debug=true', 'buildtype=release'] gives debug=false) is NOT probed: the
# documentation says nothing about the order inside one source, last-wins is a defensible reading, so demanding the opposite
# would over-reach; the campaigns always list buildtype first inside a source.
PROBES = ['sp-buildtype-overrides-explicit', 'builtin-empty-string-becomes-dot']


def run_probe(name: str, root: str) -> T.Optional[Failure]:
    sig, sc, expect, why = probe_case(name)
    res = run_scenario(sc, root, inproc=False)
    mm = mismatches(res, expect)
    if not mm:
        return None
    view, oname, got, want = mm[0]
    return Failure(sig, {'kind': 'probe', 'name': name},
                   f'{describe(sc)}\n  expected {view} {oname} = {want!r} ({why})\n  got {got!r}'
                   + (f'\n  {error_lines(res)}' if res.rc != 0 else ''))


def _probe_shard(shard: str, ev: Evidence, fails: T.List[Failure]) -> None:
    f = run_probe(shard, os.path.join(_workdir(), 'w'))
    ev.case({'probe': shard}, nontrivial=True, cls='known-finding-probe', sample={'probe': shard, 'still_fails': f is not None})
    if f is not None:
        fails.append(f)


# ---------------------------------------------------------------------------

SHARD_FUNCS: T.Dict[str, T.Callable[[T.Any, Evidence, T.List[Failure]], None]] = {
    'sp_builtin': _sp_builtin_shard, 'sp_project': _sp_project_shard, 'top': _top_shard, 'derived_bt': _derived_bt_shard,
    'derived_prefix': _derived_prefix_shard, 'validity': _validity_shard, 'permachine': _permachine_shard,
    'btdir': _btdir_shard,
    'direct': _direct_shard, 'compiler': _compiler_shard, 'latebase': _latebase_shard, 'probe': _probe_shard,
}


def _dispatch(shard: T.Tuple[str, T.Any, str], ev: Evidence, fails: T.List[Failure]) -> None:
    global _WORKDIR
    kind, payload, wd = shard
    _WORKDIR = wd
    try:
        SHARD_FUNCS[kind](payload, ev, fails)
    finally:
        shutil.rmtree(wd, ignore_errors=True)
        _WORKDIR = None


def chunks(lst: T.List[T.Any], n: int) -> T.List[T.List[T.Any]]:
    return [lst[i:i + n] for i in range(0, len(lst), n)]


def selftest(ctx: Ctx) -> None:
    # the fold on the documentation's own examples
    v = ['v1', 'v2', 'v3', 'v4', 'v5', 'v6', 'v7', 'v8']
    if fold(range(8), 0, v, 'd')[0] != 'd' or fold(range(8), 0xff, v, 'd')[0] != 'v8' or fold(range(8), 0b00001111, v, 'd')[0] != 'v4':
        raise HarnessError('fold self-test failed')
    # Machine-files.md: "[built-in options] default_library = 'static' will make subprojects use default_library as static"
    if fold(range(8), 0b100, v, 'shared')[0] != 'v3' or fold(TOP_SRC, 0b100, v, 'shared')[0] != 'v3':
        raise HarnessError('fold self-test failed (machine file example)')
    # Subprojects.md / Builtin-options.md: subproject('foo', default_options: 'default_library=static') and -Dfoo:default_library=static
    # name the subproject only
    if fold(TOP_SRC, 0b10100000, v, 'shared')[0] != 'shared' or fold(range(8), 0b10100000, v, 'shared')[0] != 'v8':
        raise HarnessError('fold self-test failed (subproject-only sources)')
    # Builtin-options.md: "-Dbuildtype=debugoptimized is the same as -Ddebug=true -Doptimization=2"
    if BT_TABLE['debugoptimized'] != (True, '2') or len(BT_TABLE) != 5:
        raise HarnessError('buildtype table self-test failed')
    for _, _, default, pool, _ in CORE:
        for rot in range(3):
            a = assign_values(pool, default, rot)
            if any(a[i] == a[i + 1] for i in range(7)) or a[0] == default:
                raise HarnessError(f'value assignment leaves adjacent levels equal: {pool}')
    for p in PTYPES.values():
        a = assign_values(p['pool'], p['default'], 1)
        if any(a[i] == a[i + 1] for i in range(7)) or a[0] == p['default']:
            raise HarnessError('value assignment leaves adjacent levels equal (project option)')


def run(ctx: Ctx) -> None:
    import mesonbuild.interpreter  # noqa: F401  preload before forking
    from mesonbuild import mesonmain, msetup, mintro, mconf, optinterpreter  # noqa: F401
    rnd = random.Random(ctx.seed)
    rot = ctx.seed % 7
    shards: T.List[T.Tuple[int, str, T.Any]] = []      # (cost estimate, kind, payload)
    persub = [e for e in CORE if e[4]]
    globals_ = [e for e in CORE if not e[4]]
    thorough = not ctx.quick

    # (a) 2^8 per option kind
    cross_builtin = {e[0] for e in (persub if thorough else rnd.sample(persub, 2))}
    for name, typ, default, pool, _ in persub:
        for cross in (False, True):
            if cross and name not in cross_builtin:
                continue
            for rr in ((rot, rot + 3) if thorough and not cross else (rot,)):
                for ms in chunks(list(range(256)), 64):
                    shards.append((64, 'sp_builtin', (name, typ, default, pool, rr, ms, cross, (ctx.seed + len(name)) % 16)))
    variants = ['none', 'same', 'yield-none', 'yield-same', 'yield-difftype']
    cross_ptype = set(PTYPES) if thorough else {rnd.choice(sorted(PTYPES))}
    for ptype in PTYPES:
        for variant in variants + (['yield-difftype2'] if ptype in DIFFTYPE_PARENT2 else []):
            for cross in (False, True):
                if cross and (ptype not in cross_ptype or variant in ('none', 'yield-none', 'yield-difftype', 'yield-difftype2')):
                    continue
                allm = list(range(256))
                if ctx.quick and variant in ('yield-difftype', 'yield-difftype2'):
                    allm = allm[ctx.seed % 2::2]      # the direct OptionStore pass covers all of them
                for ms in chunks(allm, 256 if variant.endswith('none') else 64):
                    shards.append((32 if variant.endswith('none') else 64, 'sp_project',
                                   (ptype, variant, rot, ms, cross, (ctx.seed + len(ptype)) % 16)))
    # (b) top-level order
    ents: T.List[T.Any] = [('builtin', e[0], e[1], e[2], e[3]) for e in globals_]
    ents.append(('builtin', 'install_umask', 'umask', '022', ['022', '0027', '0077', 'preserve', '0002', '0777']))
    ents.append(('builtin-ninja', 'backend_max_links', 'int', 0, [0, 3, 5, 7, 9]))      # configured with the ninja backend
    ents += [('project', pt, ex) for pt in PTYPES for ex in (True, False) if ex or PTYPES[pt]['implicit'] is not None]
    for cross in (False, True):
        for es in chunks(ents, 6):
            shards.append((48, 'top', (es, cross, rot)))
    # (c) derived defaults
    S: T.List[T.Optional[int]] = [None] + list(range(8))
    cells = [(B, D, O, i + ctx.seed) for i, (B, D, O) in enumerate(itertools.product(S, S, S))]
    for cs in chunks(cells, 61):
        shards.append((61, 'derived_bt', (cs, False)))
    for cs in chunks(cells if thorough else cells[ctx.seed % 4::4], 61):
        shards.append((61, 'derived_bt', (cs, True)))
    bcells = btdir_cells()
    for cs in chunks(bcells if thorough else bcells[ctx.seed % 2::2], 10):
        shards.append((30, 'btdir', cs))
    pcells = [(pm, E, r) for pm in range(8) for E in (None, 0, 2, 3) for r in range(4)]
    for cross in (False, True):
        for cs in chunks(pcells, 32):
            shards.append((32, 'derived_prefix', (cs, cross)))
    # (d) validity
    nper = ctx.n(80, 800)
    for s in shard_seeds(ctx, 16 if ctx.quick else 32):
        shards.append((nper * 2, 'validity', (s, nper)))
    # (e) per-machine in a cross build
    for opt in ('pkg_config_path', 'cmake_prefix_path'):
        for cs in chunks([(h, b) for h in range(8) for b in range(8)], 32):
            shards.append((32, 'permachine', (opt, cs)))
    # (f) OptionStore directly
    rots = list(range(7)) if thorough else [(rot + 1) % 7, (rot + 2) % 7]
    for name, typ, default, pool, _ in persub:
        for rs in chunks(rots, 2):
            shards.append((50, 'direct', ('builtin', (name, typ, default, pool, rs))))
    for ptype in PTYPES:
        for variant in variants:
            shards.append((20 * len(rots), 'direct', ('project', (ptype, variant, rots))))
    for kk in range(5 if thorough else 2):
        shards.append((70, 'direct', ('derived', [(B, D, O, i + kk + ctx.seed + 1) for i, (B, D, O) in enumerate(itertools.product(S, S, S))])))
    # late-registered base options (both tiers): every subset of the top-level sources
    top_masks = [m for m in range(256) if m and not (m & ~sum(1 << i for i in TOP_SRC))]
    for name in LATE_BASE_BOOL:
        for flip in (0, 1):
            shards.append((len(top_masks) * 20, 'latebase', (name, top_masks, flip)))
    # compiler options
    if thorough:
        for name, typ, default, pool in COMPILER_OPTS:
            for ms in chunks(list(range(256)), 16):
                shards.append((16 * 15, 'compiler', (name, typ, default, pool, rot, ms)))
    # the same for a language that only the subproject uses (both tiers; quick: a seeded quarter of the subsets of c_std)
    for name, typ, default, pool in (COMPILER_OPTS if thorough else COMPILER_OPTS[:1]):
        allm = [m for m in range(1, 256)]
        if not thorough:
            allm = allm[ctx.seed % 4::4]
        for ms in chunks(allm, 8):
            shards.append((8 * 15, 'compiler', (name, typ, default, pool, 100 + rot, ms)))
    for pname in PROBES:
        shards.append((30, 'probe', pname))

    shards.sort(key=lambda t: -t[0])         # stable: longest first
    base = ctx.scratch
    pmap(ctx, _dispatch, [(kind, payload, os.path.join(base, f's{i}')) for i, (_, kind, payload) in enumerate(shards)])
    ctx.exhaustive = True
    ctx.ev.extra['exhaustive_scope'] = (
        'all 2^8 source subsets for every "per subproject" built-in option of the Core options table and for every project option '
        'type x parent variant; all 2^3 top-level subsets (x explicit/implicit declared default) for the remaining built-in, '
        'directory, module and project options; all 9^3 (buildtype, debug, optimization) source triples; all prefix-source subsets; '
        'values are one seeded assignment per cell (several rotations in the direct OptionStore pass); validity values are sampled')
    ctx.ev.extra['skipped_builtin_options'] = CORE_SKIPPED
    ctx.ev.extra['shards'] = len(shards)


def replay(ctx: Ctx, case: T.Any, doc: dict) -> T.Optional[Failure]:
    root = os.path.join(ctx.scratch, 'replay')
    kind = case.get('kind')
    if kind == 'probe':
        return run_probe(case['name'], root)
    if kind == 'cell':
        f = check_cell(case['group'], case['scenario'], case['expect'], case['why'], root, case.get('srcvals'), inproc=False)
        if f is not None and case.get('fixed_sig'):
            f = Failure(case['fixed_sig'], case, f.msg)      # saved minimal case of a confirmed finding
        return f
    if kind == 'intro':
        res = run_scenario(case['scenario'], root, inproc=False)
        if res.rc != 0:
            return Failure(case['group'] + '/setup-failed', case, f'{describe(case["scenario"])}\n  setup failed: {error_lines(res)}')
        return intro_check(case['group'], case['scenario'], root, case['want'], case['why'], inproc=False)
    if kind == 'btdir':
        return check_btdir(case['cell'], root, inproc=False)
    if kind == 'validity':
        return check_validity({k: v for k, v in case.items() if k != 'kind'}, root, None, inproc=False)
    raise HarnessError(f'unknown replay kind {kind!r}')


RULE = (
    'exhaustive enumeration through the real `meson setup --backend=none` of a generated top project + subprojects/sp: '
    '(a) every subset of the eight documented sources (parent default_options opt, sub default_options, machine-file opt, '
    '-Dopt, parent sp:opt, subproject(default_options:), machine-file sp:opt, -Dsp:opt) for each per-subproject built-in option '
    '(int, combo, bool) and for each project-option type (string, boolean, integer min/max, combo, array with choices, feature) x '
    '{no parent option, same-named parent, yield, yield + same-named parent, yield + parent of another type}, native and cross; '
    '(a2) every subset (quick: a seeded quarter) of the eight sources for a compiler option (c_std) of a language that only the subproject uses, so that the option is registered late; '
    '(b) every subset of {default_options, machine file, command line} x {explicit, implicit declared default} for all other '
    'built-in/directory/module/per-machine/project options; (c) every (source of buildtype, source of debug, source of '
    'optimization) triple, the same rule on a configured directory (`meson configure` / `setup --reconfigure` with buildtype and explicit debug/optimization in every order on one command line) and every prefix-source subset x explicit/default directories; (d) Hypothesis valid/invalid values per '
    'type via command line, machine file, default_options, subproject(default_options) and `meson configure`; (e) host/build '
    'per-machine options in a cross build; (f) the same tables directly against OptionStore with more value assignments '
    '(confirmed through the CLI). Each present source carries its own value, adjacent priority levels always differ. '
    'Oracle = value of the last present source in the documented list, else the declared default; read back through get_option() '
    'in both build files and `meson introspect --buildoptions`. non-trivial = at least two sources present (or a generated '
    'value for validity cases); distinct by (option, source subset, machine mode, value assignment) - enumerations are '
    'duplicate free by construction.')
ASSUMPTIONS = [
    'an unqualified `opt=value` (parent default_options, machine file [project options]/[built-in options], -Dopt) names the option of the top-level project; for a project option only sub default_options, subproject(default_options:) and the three `sp:opt` spellings name the subproject option',
    'a built-in option whose "Per subproject" column says "no" (and module options, which have no such column) has one global value that the subproject sees too; sources 2,5,6,7,8 are not exercised for them',
    'any `sp:opt=value` source (parent default_options, machine file, command line) counts as the override of a yielding option described for -Dsub:opt in Build-options.md',
    'an explicit debug/optimization value wins over buildtype when it comes from a source of equal or higher priority; explicit values from a LOWER-priority source than buildtype are excluded (the docs allow two readings)',
    'in a cross build the machine-file source is the cross file; the native file only contributes build-machine values of per-machine options',
]
