"""C09 - A killed meson command never bricks the build directory.

Fault enumeration.  For each (directory history, mutating command X):
  1. build the history (0-3 successful commands), snapshot the build directory (pre-X state);
  2. run X once under the crash shim in counting mode (and under strace, to cross-check that no
     mutating syscall escapes the shim) -> mutation list M;
  3. for EVERY k in 1..|M| ("before" variant) and every write in M ("torn" variant: first half of
     the write(2) reaches the file): restore the snapshot, run X as a subprocess with the kill at
     k (os._exit(137): no finally/atexit, user-space buffers lost), then run the follow-up the
     property prescribes - `meson setup B S` when the directory was unconfigured before X, else
     `meson setup --reconfigure B S` - with no manual repair;
  4. oracle (all from the property sentence): the follow-up exits 0 without an unhandled exception;
     `meson introspect --buildoptions B` then works and every option has either its pre-X value or
     the value the completed X gives it.
"""
from __future__ import annotations

import hashlib
import json
import os
import random
import re
import shutil
import stat
import subprocess
import typing as T

from harness.core import Ctx, Evidence, Failure, HarnessError, pmap, VERIF, fp
from harness import mesondrv

LEVEL = 'fault_enumeration'
RULE = ('histories = seeded sequences of 0-3 successful commands (setup / configure -D / setup --reconfigure -D / setup --wipe with '
        'option values drawn from a small alphabet; every second history ends with an edit of the option files that changes the defaults of options nobody set) on a no-language project with a subproject and an option file (thorough: also a '
        'C-target variant); X in {setup, setup --reconfigure -Do=new.., setup --wipe, configure -Do=new..} (thorough: also `setup -D` on a '
        'configured dir). For each (history, X) the mutation list M of X is recorded by the crash shim (open-for-write, every write(2) of '
        'Python file objects, replace/rename/unlink/rmdir/mkdir/chmod/utime/fsync/..., outside meson-logs/) and EVERY k in 1..|M| is '
        'killed before the operation, plus every write >= 2 bytes additionally torn in half; then the prescribed follow-up runs. '
        'non-trivial kill point = the directory after the kill differs from both the pre-X snapshot and the state after the completed X '
        '(byte digest over all files and modes outside meson-logs/, build-root path normalised); distinct by (history, X, k, variant).')
ASSUMPTIONS = [
    'a kill is modelled at Python-visible mutation calls and real write(2) boundaries of Python file objects (plus half-writes); '
    'no reordering of unsynced data (power loss) is modelled',
    'the follow-up is chosen by the state BEFORE X: plain `meson setup B S` only when X was the first setup of an unconfigured directory',
    'the value "X was setting" is read from a completed run of the same X on the same pre-state (introspect --buildoptions)',
    'files under meson-logs/ are logs, not state: mutations there are not kill points',
    'children of meson (the fake ninja, gcc in the C variant) are not instrumented; their writes are not kill points',
]

SHIM = os.path.join(VERIF, 'harness', 'shim')

# ---------------------------------------------------------------------------
# project under test

NOLANG = {
    'meson.build': (
        "project('kp', version: '1.0', default_options: ['warning_level=1'])\n"
        "message('o=' + get_option('o'))\n"
        "sp = subproject('sp')\n"
        "configure_file(output: 'conf.h', configuration: {'O': get_option('o'), 'N': get_option('n')})\n"
        "custom_target('ct', output: 'ct.out', command: ['true'], build_by_default: true)\n"
        # a command that meson serialises into meson-private/meson_exe_*.dat (env + capture): one more state file
        "custom_target('ctw', output: 'ctw.out', capture: true, env: {'KP_ENV': 'v'}, command: [find_program('true')], build_by_default: true)\n"),
    'meson.options': (
        "option('o', type: 'string', value: 'd0')\n"
        "option('n', type: 'integer', value: 3)\n"
        "option('f', type: 'feature', value: 'auto')\n"
        "option('m', type: 'string', value: 'md')\n"),
    'subprojects/sp/meson.build': "project('sp', version: '0.1')\nmessage('sp so=' + get_option('so'))\n",
    'subprojects/sp/meson.options': "option('so', type: 'string', value: 'sd')\n",
}
CVARIANT = dict(NOLANG)
CVARIANT['meson.build'] = NOLANG['meson.build'].replace("project('kp',", "project('kp', 'c',") + \
    "executable('prog', 'main.c', install: true)\ntest('t', find_program('true'))\n"
CVARIANT['main.c'] = '#include "conf.h"\nint main(void) { return 0; }\n'

# option alphabet for -D (buildtype/optimization/debug are left out: setting one changes the others)
OPT_VALUES: T.Dict[str, T.List[str]] = {
    'o': ['h1', 'h2', 'h3', 'with space'],
    'n': ['0', '7', '42'],
    'f': ['enabled', 'disabled', 'auto'],
    'sp:so': ['s1', 's2'],
    'warning_level': ['0', '2', '3'],
    'werror': ['true', 'false'],
    'prefix': ['/opt/kp', '/usr'],
}


def gen_opts(rnd: random.Random, lo: int, hi: int) -> T.Dict[str, str]:
    names = rnd.sample(sorted(OPT_VALUES), rnd.randint(lo, hi))
    return {n: rnd.choice(OPT_VALUES[n]) for n in sorted(names)}


def gen_history(rnd: random.Random, length: int) -> T.List[list]:
    """`length` successful commands, the first one being the initial setup."""
    h: T.List[list] = [['setup', gen_opts(rnd, 0, 2)]]
    while len(h) < length:
        cmd = rnd.choice(['configure', 'configure', 'reconfigure', 'wipe'])
        h.append([cmd, {} if cmd == 'wipe' else gen_opts(rnd, 1 if cmd == 'configure' else 0, 2)])
    return h


def gen_cases(seed: int, quick: bool) -> T.List[dict]:
    rnd = random.Random(seed * 7919 + 13)
    cases: T.List[dict] = []
    serial = [0]

    def newval() -> str:
        serial[0] += 1
        return 'new%d' % serial[0]

    def xopts(extra_hi: int) -> T.Dict[str, str]:
        d = gen_opts(rnd, 0, extra_hi)
        d['o'] = newval()
        return d

    lengths = [1, 3] if quick else [1, 2, 3, 3, 2, 3, 1, 3, 2, 3]
    xs = ['reconfigure', 'wipe', 'configure'] + ([] if quick else ['setup_again'])
    for hi, ln in enumerate(lengths):
        hist = gen_history(rnd, ln)
        if hi % 2 == 1:
            hist[0][1] = dict(hist[0][1], **{NATIVE_KEY: 'pipe' if hi % 4 == 3 else '1'})
        else:
            # the option files were edited after the last command: new defaults for options that keep their old ones
            hist.append(['edit-defaults', {}])
        for x in xs:
            cases.append({'variant': 'nolang', 'pre_dir': None, 'history': hist,
                          'x': [x, {} if x == 'wipe' else xopts(2)]})
    # the machine file of the first setup came through a pipe: its private copy is the only one there is
    hist = gen_history(rnd, 1)
    hist[0][1] = dict(hist[0][1], **{NATIVE_KEY: 'pipe'})
    for x in (['wipe'] if quick else ['wipe', 'reconfigure']):
        cases.append({'variant': 'nolang', 'pre_dir': None, 'history': hist, 'x': [x, {} if x == 'wipe' else xopts(2)]})
    for pre_dir in (['absent'] if quick else ['absent', 'empty', 'absent', 'empty']):
        cases.append({'variant': 'nolang', 'pre_dir': pre_dir, 'history': [], 'x': ['setup', xopts(2)]})
    if not quick:
        hist = gen_history(rnd, 2)
        for x in ['reconfigure', 'wipe', 'configure']:
            cases.append({'variant': 'c', 'pre_dir': None, 'history': hist, 'x': [x, {} if x == 'wipe' else xopts(1)]})
        cases.append({'variant': 'c', 'pre_dir': 'absent', 'history': [], 'x': ['setup', xopts(1)]})
    return cases


NATIVE_KEY = '@native'       # pseudo option of a setup command: configure with the machine file written next to the source dir
NATIVE_INI = ("[built-in options]\ndefault_library = 'static'\nlibdir = 'lib/fromnative'\n\n"
              "[project options]\nm = 'fromnative'\n")


def argv_for(cmd: str, opts: T.Dict[str, str], B: str, S: str) -> T.List[str]:
    d = ['-D%s=%s' % (k, v) for k, v in opts.items() if k != NATIVE_KEY]
    if opts.get(NATIVE_KEY):
        # values that come from a machine file live only in the persisted configuration (and the recorded command line
        # names the file): a killed command must not lose them either
        # '1': a regular file; 'pipe': a FIFO (meson then keeps a private copy meson-private/<uuid>.native.ini, which is
        # the only place the content survives)
        d = ['--native-file', os.path.join(os.path.dirname(S), 'native.fifo' if opts[NATIVE_KEY] == 'pipe' else 'native.ini')] + d
    if cmd in ('setup', 'setup_again'):
        return ['setup'] + d + [B, S]
    if cmd == 'reconfigure':
        return ['setup', '--reconfigure'] + d + [B, S]
    if cmd == 'wipe':
        return ['setup', '--wipe'] + d + [B, S]
    if cmd == 'configure':
        return ['configure'] + d + [B]
    if cmd == 'edit-defaults':
        return ['(edit of the option files: new defaults for m, n, sp:so)']      # for display only; Site.run_history applies it
    raise HarnessError(f'unknown command {cmd}')


def followup_argv(case: dict, B: str, S: str) -> T.List[str]:
    # property: "re-running `meson setup` (with `--reconfigure` when it was already configured)"
    return ['setup', B, S] if not case['history'] else ['setup', '--reconfigure', B, S]


# ---------------------------------------------------------------------------
# running meson

def sub(args: T.Sequence[str], pyc: str, cwd: str, extra: T.Optional[T.Dict[str, str]] = None) -> mesondrv.Result:
    """fresh `python /repo/meson.py args`; byte code is cached under the scratch prefix `pyc`
    (never inside the repository), which makes the ~1000s of process starts affordable."""
    env = mesondrv.base_env(extra)
    env.pop('PYTHONDONTWRITEBYTECODE', None)
    env['PYTHONPYCACHEPREFIX'] = pyc
    p = subprocess.run([mesondrv.PY, mesondrv.MESON_PY] + list(args), cwd=cwd, env=env, stdout=subprocess.PIPE,
                       stderr=subprocess.PIPE, stdin=subprocess.DEVNULL, timeout=600)
    return mesondrv.Result(p.returncode, p.stdout.decode('utf-8', 'replace'), p.stderr.decode('utf-8', 'replace'))


def shim_env(B: str, count: T.Optional[str] = None, crash_at: int = 0, mode: str = 'before') -> T.Dict[str, str]:
    e = {'PYTHONPATH': SHIM, 'MESON_VERIF_ROOT': B}
    if count:
        e['MESON_VERIF_COUNT'] = count
    if crash_at:
        e['MESON_VERIF_CRASH_AT'] = str(crash_at)
        e['MESON_VERIF_CRASH_MODE'] = mode
    return e


def read_mlist(path: str) -> T.List[list]:
    out = []
    if not os.path.exists(path):
        return out
    with open(path, encoding='utf-8', errors='surrogateescape') as f:
        for line in f:
            parts = line.rstrip('\n').split('\t')
            if len(parts) == 4:
                out.append([parts[1], parts[2], int(parts[3])])
    return out


_TMPNAME = re.compile(r'tmp[a-z0-9_]{6,}')


_DIGEST = re.compile(r'[0-9a-f]{40}')      # content digests in file names (meson_exe_<prog>_<sha1>.dat) depend on absolute paths


def _opname(p: str) -> str:
    return _DIGEST.sub('H', _TMPNAME.sub('tmp*', p))


def same_op(a: T.Sequence, b: T.Sequence) -> bool:
    return a[0] == b[0] and _opname(a[1]) == _opname(b[1])


# ---------------------------------------------------------------------------
# directory state

def digest(B: str, root: str) -> str:
    """content+mode digest of everything in B outside meson-logs/, with the (fixed-length) per-shard
    root path normalised so that digests of different shard directories are comparable."""
    if not os.path.lexists(B):
        return 'absent'
    h = hashlib.sha1()
    rb = root.encode()
    for dp, dns, fns in os.walk(B):
        rel = os.path.relpath(dp, B)
        if rel == '.':
            dns[:] = [d for d in dns if d != 'meson-logs']
        dns.sort()
        h.update(b'D' + rel.encode('utf-8', 'surrogateescape') + b'\0')
        for fn in sorted(fns):
            p = os.path.join(dp, fn)
            st = os.lstat(p)
            h.update(b'F' + fn.encode('utf-8', 'surrogateescape') + b'\0' + oct(stat.S_IMODE(st.st_mode)).encode())
            if stat.S_ISLNK(st.st_mode):
                h.update(os.readlink(p).encode())
            elif stat.S_ISREG(st.st_mode):
                with open(p, 'rb') as f:
                    h.update(hashlib.sha1(f.read().replace(rb, b'@ROOT@')).digest())
    return h.hexdigest()


def restore(B: str, snap: T.Optional[str], pre_dir: T.Optional[str]) -> None:
    if os.path.lexists(B):
        shutil.rmtree(B)
    if snap is not None:
        shutil.copytree(snap, B, symlinks=True)
    elif pre_dir == 'empty':
        os.mkdir(B)


def optvalues(text: str) -> T.Optional[T.Dict[str, T.Any]]:
    try:
        data = json.loads(text)
    except ValueError:
        return None
    if not isinstance(data, list):
        return None
    return {o['name']: o['value'] for o in data}


# ---------------------------------------------------------------------------
# one (history, X) in one private directory

class Site:
    """A private source+build directory pair.  All Site roots of one run have the same path length,
    so pickles/JSON written by meson have the same sizes and M is identical across them (verified on
    every kill: the k-th logged operation must be M[k])."""

    def __init__(self, case: dict, root: str, pyc: str):
        self.case = case
        self.root = root
        self.pyc = pyc
        self.S = os.path.join(root, 'src')
        self.B = os.path.join(root, 'b')
        self.snap: T.Optional[str] = None
        self.pre_digest = ''
        os.makedirs(root)
        mesondrv.write_tree(self.S, CVARIANT if case['variant'] == 'c' else NOLANG)
        mesondrv.write_tree(root, {'native.ini': NATIVE_INI})

    def feed_fifo(self) -> None:
        import threading
        path = os.path.join(self.root, 'native.fifo')
        if not os.path.exists(path):
            os.mkfifo(path)

        def writer() -> None:
            with open(path, 'w') as f:       # blocks until meson opens the other end
                f.write(NATIVE_INI)
        threading.Thread(target=writer, daemon=True).start()

    def run_history(self, inproc: bool) -> None:
        for cmd, opts in self.case['history']:
            if cmd == 'edit-defaults':
                # not a command: the project's option files change the DEFAULT of options nobody has set (C08: such an option keeps
                # the default it was created with until a --wipe).  Every value of the pre-X state is still read from the directory.
                for rel, old, new in (('meson.options', "value: 'md'", "value: 'md-edited'"), ('meson.options', 'value: 3)', 'value: 5)'),
                                      ('subprojects/sp/meson.options', "value: 'sd'", "value: 'sd-edited'")):
                    path = os.path.join(self.S, rel)
                    with open(path, encoding='utf-8') as f:
                        text = f.read()
                    if old not in text:
                        raise HarnessError(f'edit-defaults: {old!r} not in {rel}')
                    with open(path, 'w', encoding='utf-8') as f:
                        f.write(text.replace(old, new))
                continue
            args = argv_for(cmd, opts, self.B, self.S)
            piped = opts.get(NATIVE_KEY) == 'pipe'
            if piped:
                self.feed_fifo()
            r = mesondrv.run_inproc(args, cwd=self.root) if inproc else sub(args, self.pyc, self.root)
            if inproc and (r.rc != 0 or r.unhandled):
                if piped:
                    shutil.rmtree(self.B, ignore_errors=True)
                    self.feed_fifo()
                r = sub(args, self.pyc, self.root)
            if r.rc != 0 or r.unhandled:
                raise HarnessError(f'history command {args} failed (generator must only produce successful histories): {r!r}')
        if self.case['history']:
            self.snap = os.path.join(self.root, 'snap')
            shutil.copytree(self.B, self.snap, symlinks=True)
        elif self.case['pre_dir'] == 'empty':
            os.mkdir(self.B)
        self.pre_digest = digest(self.B, self.root)

    def introspect(self, inproc: bool) -> T.Tuple[T.Optional[T.Dict[str, T.Any]], mesondrv.Result]:
        args = ['introspect', '--buildoptions', self.B]
        r = mesondrv.run_inproc(args, cwd=self.root) if inproc else sub(args, self.pyc, self.root)
        vals = optvalues(r.out) if r.rc == 0 else None
        if inproc and vals is None:
            r = sub(args, self.pyc, self.root)
            vals = optvalues(r.out) if r.rc == 0 else None
        return vals, r

    def xargs(self) -> T.List[str]:
        return argv_for(self.case['x'][0], self.case['x'][1], self.B, self.S)

    def reset(self) -> None:
        restore(self.B, self.snap, self.case['pre_dir'])


def norm_msg(text: str, site: Site) -> str:
    return text.replace(site.B, '<B>').replace(site.S, '<S>').replace(site.root, '<ROOT>')


_FRAME = re.compile(r'File "([^"]*)", line \d+, in (\S+)')


def classify_crash(text: str) -> T.Tuple[str, str]:
    """(where, exception line) for an unhandled exception printed by meson"""
    lines = text.splitlines()
    where = 'unknown'
    exc = ''
    try:
        i0 = max(i for i, l in enumerate(lines) if l.startswith('Traceback (most recent call last)'))
    except ValueError:
        return where, exc
    for l in lines[i0 + 1:]:
        m = _FRAME.search(l)
        if m and l.startswith('  '):
            fn = m.group(1).replace('\\', '/')
            if '/mesonbuild/' in fn:
                mod = fn.split('/mesonbuild/', 1)[1][:-3].replace('/', '.')
                # everything inside cmdline.py is reading/writing meson-private/cmd_line.txt: one root cause
                where = 'cmd_line.txt' if mod == 'cmdline' else mod + '.' + m.group(2)
            continue
        if l and not l.startswith(' '):
            exc = l.strip()
            break
    return where, exc


def slug(s: str, n: int = 70) -> str:
    return re.sub(r'[^A-Za-z0-9_.<>]+', '-', s).strip('-')[:n]


NOOP_SIG = 'first-setup-killed/setup-says-already-configured'


def judge(site: Site, pre: T.Dict[str, T.Any], post: T.Dict[str, T.Any], defaults: T.Dict[str, T.Any],
          inproc: bool) -> T.Tuple[T.List[T.Tuple[str, str]], str]:
    """Run the prescribed follow-up on the directory as the kill left it and apply the oracle.
    Returns (list of (signature, message), outcome label)."""
    case = site.case
    v, label, noop = judge_one(site, followup_argv(case, site.B, site.S), pre, post, defaults, inproc)
    if v is None:
        return [], label
    if not case['history'] and noop:
        # The first setup was killed after coredata.dat appeared: meson itself now regards the directory as configured
        # (plain `meson setup` prints "Directory already configured" and exits 0).  The property's parenthesis "(with
        # --reconfigure when it was already configured)" can be read as "configured as far as meson is concerned", so
        # this is not judged as a violation (counted in the outcome label); the follow-up the message recommends is
        # run and judged instead.
        v2, label2, _ = judge_one(site, ['setup', '--reconfigure', site.B, site.S], pre, post, defaults, inproc)
        return ([v2] if v2 is not None else []), 'setup-noop,then-reconfigure:' + label2
    return [v], label


def judge_one(site: Site, fa: T.List[str], pre: T.Dict[str, T.Any], post: T.Dict[str, T.Any], defaults: T.Dict[str, T.Any],
              inproc: bool) -> T.Tuple[T.Optional[T.Tuple[str, str]], str, bool]:
    case = site.case
    had_cmdline = os.path.isfile(os.path.join(site.B, 'meson-private', 'cmd_line.txt'))
    r = sub(fa, site.pyc, site.root)
    shown = 'meson ' + ' '.join('B' if a == site.B else 'S' if a == site.S else a for a in fa)
    noop = r.rc == 0 and 'Directory already configured' in r.out
    if r.unhandled:
        where, exc = classify_crash(r.text)
        return (f'followup-unhandled/{where}',
                f'`{shown}` after the kill dies with an unhandled exception ({where}): {exc}\n' + norm_msg(r.text[-1500:], site)), 'unhandled', noop
    if r.rc != 0:
        errs = [l for l in r.text.splitlines() if 'ERROR:' in l]
        first = norm_msg(errs[0] if errs else r.text.strip().splitlines()[-1] if r.text.strip() else f'exit {r.rc}', site)
        first = re.sub(r'^.*ERROR:\s*', '', first)
        first = re.sub(r'[0-9a-fA-F]{8}-[0-9a-fA-F]{4}-[0-9a-fA-F]{4}-[0-9a-fA-F]{4}-[0-9a-fA-F]{12}', 'UUID', first)
        return (f'followup-error/{slug(first)}',
                f'`{shown}` after the kill exits {r.rc} (manual repair needed): {first}\n' + norm_msg(r.text[-1200:], site)), 'error', noop
    vals, ri = site.introspect(inproc)
    if vals is None:
        first = norm_msg(' '.join(ri.text.strip().splitlines()[-3:]) or 'no output', site)
        first = re.sub(r'^.*ERROR:\s*', '', first)
        return (f'introspect-fails/{slug(first, 50)}',
                f'`{shown}` exits 0 but afterwards `meson introspect --buildoptions B` fails (rc {ri.rc}): {first}'), 'introspect-fails', noop
    missing = sorted(set(post) - set(vals))
    if missing:
        return (f'option-missing/{case["x"][0]}',
                f'after `{shown}` options {missing[:6]} are missing from introspect --buildoptions (present after a completed X)'), 'missing', noop
    bad = []
    n_old = n_new = 0
    for name in sorted(vals):
        if name not in pre and name not in post:
            continue
        allowed = [d[name] for d in (pre, post) if name in d]
        got = vals[name]
        if got not in allowed:
            bad.append((name, got, allowed))
        elif name in pre and name in post and pre[name] != post[name]:
            if got == pre[name]:
                n_old += 1
            else:
                n_new += 1
    if bad:
        name, got, allowed = bad[0]
        kind = 'reverted-to-default' if all(defaults.get(n) == g for n, g, _ in bad) else 'other-value'
        # root cause = which state the kill left behind: was the saved command line still there?
        kind += ':cmd_line.txt-' + ('present' if had_cmdline else 'missing')
        return (f'option-value/{case["x"][0]}:{kind}',
                f'the kill left meson-private/cmd_line.txt {"in place" if had_cmdline else "MISSING"}; after `{shown}` option {name!r} = {got!r}; allowed by the property: pre-X value {pre.get(name)!r} or the value X '
                f'gives it {post.get(name)!r}. All offending options: ' +
                ', '.join(f'{n}={g!r} (allowed {a!r})' for n, g, a in bad[:8])), 'bad-value', noop
    # "no state file is left unreadable for that run": every pickled file of meson-private must load
    bad_dat = unreadable_state_files(site)
    if bad_dat:
        return (f'state-file-unreadable/{re.sub(r"[0-9a-f]{8,}", "H", os.path.basename(bad_dat[0][0]))}',
                f'`{shown}` exits 0, but afterwards {bad_dat[0][0]} cannot be loaded ({bad_dat[0][1]}); the command that '
                f'uses it (ninja running the wrapped command, meson test, meson install) will fail until it is deleted by hand. '
                f'All unreadable files: {[b[0] for b in bad_dat]}'), 'state-file-unreadable', noop
    label = 'all-old' if n_new == 0 else ('all-new' if n_old == 0 else 'mixed-old-new')
    if 'Regenerating configuration from scratch' in r.text:
        label += ' (follow-up regenerated an unreadable coredata.dat from cmd_line.txt)'
    if case['x'][0] in ('wipe', 'setup') and not site.case.get('_no_second_wipe'):
        # "the directory remains usable": the repaired directory must also carry a complete record of how it was
        # configured - a later `meson setup --wipe` (which re-derives everything from that record) must give the same values
        rw = sub(['setup', '--wipe', site.B, site.S], site.pyc, site.root)
        if rw.unhandled or rw.rc != 0:
            first = norm_msg((rw.text.strip().splitlines() or ['?'])[-1], site)
            return (f'wipe-after-repair-fails/{slug(re.sub(r"^.*ERROR:\\s*", "", first), 50)}',
                    f'after the repair `{shown}` succeeded, `meson setup --wipe B S` fails (rc {rw.rc}): {first}\n' + norm_msg(rw.text[-900:], site)), 'wipe-after-repair-fails', noop
        vals2, _ = site.introspect(inproc)
        if vals2 is not None:
            bad2 = [(n_, vals2[n_], [d[n_] for d in (pre, post) if n_ in d]) for n_ in sorted(vals2)
                    if (n_ in pre or n_ in post) and vals2[n_] not in [d[n_] for d in (pre, post) if n_ in d]]
            if bad2:
                n_, g_, a_ = bad2[0]
                return (f'option-value-after-later-wipe/{case["x"][0]}',
                        f'`{shown}` repaired the directory (all values fine), but a later `meson setup --wipe B S` gives option {n_!r} = {g_!r} '
                        f'(allowed: {a_!r}): the repair did not restore the record of how the directory was configured. All offending options: '
                        + ', '.join(f'{n}={g!r}' for n, g, _ in bad2[:8])), 'bad-value-after-later-wipe', noop
        label += ' +later-wipe-ok'
    return None, label, noop


_LOAD_DAT = ('import pickle, sys, glob, os\nsys.path.insert(0, sys.argv[1])\nfor f in sorted(glob.glob(os.path.join(sys.argv[2], "meson-private", "*.dat"))):\n'
             '    try:\n        with open(f, "rb") as fh:\n            pickle.load(fh)\n'
             '    except Exception as e:\n        print("BAD\\t%s\\t%s: %s" % (os.path.relpath(f, sys.argv[2]), type(e).__name__, e))\n')


def unreadable_state_files(site: Site) -> T.List[T.Tuple[str, str]]:
    from harness.core import REPO
    p = subprocess.run([mesondrv.PY, '-B', '-c', _LOAD_DAT, REPO, site.B], stdout=subprocess.PIPE, stderr=subprocess.PIPE, timeout=300)
    out = []
    for line in p.stdout.decode('utf-8', 'replace').splitlines():
        parts = line.split('\t')
        if len(parts) == 3 and parts[0] == 'BAD':
            out.append((parts[1], parts[2][:200]))
    if p.returncode != 0 and not out:
        raise HarnessError(f'state file loader failed: {p.stderr.decode("utf-8", "replace")[-600:]}')
    return out


def kill_and_judge(site: Site, M: T.List[list], k: int, mode: str, pre: dict, post: dict, defaults: dict, post_digest: str,
                   inproc: bool, memo: T.Optional[dict], ev: T.Optional[Evidence]) -> T.List[Failure]:
    case = site.case
    site.reset()
    log = os.path.join(site.root, 'kill.log')
    if os.path.exists(log):
        os.unlink(log)
    r = sub(site.xargs(), site.pyc, site.root, shim_env(site.B, log, k, mode))
    got = read_mlist(log)
    if r.rc != 137 or len(got) != k:
        raise HarnessError(f'kill point not reproducible: case {case}, k={k}/{len(M)} expected {M[k - 1]}, child rc={r.rc}, '
                           f'logged {got[-2:]}; {r!r}')
    op, path, size = M[k - 1]
    if not same_op(got[-1], M[k - 1]):
        # the command's k-th mutation is not the one of the recording run (its order of work depends on something that
        # differs between two runs on identical directories, e.g. a directory listing): it is a kill point all the same
        op, path, size = got[-1][0], got[-1][1], (got[-1][2] if len(got[-1]) > 2 else -1)
        if ev is not None:
            ev.event('kill point differs from the recording run (order of the command\'s work is not fixed)')
    dg = digest(site.B, site.root)
    intermediate = dg != site.pre_digest and dg != post_digest
    if memo is not None and dg in memo:
        verdicts, label = memo[dg]
        if ev is not None:
            ev.event('followup reused for byte-identical directory state')
    else:
        verdicts, label = judge(site, pre, post, defaults, inproc)
        if memo is not None:
            memo[dg] = (verdicts, label)
    occ = sum(1 for m in M[:k] if m[0] == op and m[1] == path)
    full = dict(case, k=k, mode=mode, op=op, path=path, occ=occ)
    if ev is not None:
        cls = f'{case["x"][0]}:{op}' + ('~torn' if mode == 'torn' else '')
        ev.case({'x': case['x'], 'history': [h[0] for h in case['history']], 'k': k, 'op': op, 'path': path, 'mode': mode,
                 'state': 'intermediate' if intermediate else 'same as pre/post', 'result': label},
                nontrivial=intermediate, cls=cls, fingerprint=fp([case, k, mode]))
        ev.event('state:intermediate' if intermediate else 'state:equal-to-pre-or-post')
        ev.event('result:' + label)
    what = f'kill {"in the middle of" if mode == "torn" else "before"} mutation {k}/{len(M)} `{op} {path}`' \
           f' of `meson {" ".join(argv_for(case["x"][0], case["x"][1], "B", "S"))}`' \
           f' (history: {[(c if c == "edit-defaults" else " ".join(argv_for(c, o, "B", "S"))) for c, o in case["history"]] or case["pre_dir"]}): '
    return [Failure(sig, full, what + msg) for sig, msg in verdicts]


# ---------------------------------------------------------------------------
# strace cross-check of the shim (harness validation, not part of the oracle)

_ST_TRACE = ('openat,open,creat,write,pwrite64,writev,pwritev,rename,renameat,renameat2,unlink,unlinkat,rmdir,mkdir,mkdirat,'
             'symlink,symlinkat,link,linkat,fsync,fdatasync,utimensat,chmod,fchmod,fchmodat,truncate,ftruncate,sendfile,'
             'copy_file_range,fallocate,chown,fchown,fchownat,lchown,setxattr,fsetxattr,mknod,mknodat')
_ST_LINE = re.compile(r'^(\d+)\s+(\w+)\((.*)$')
_KIND = {'replace': 'rename', 'remove': 'unlink', 'os.open': 'open', 'os.write': 'write', 'fdatasync': 'fsync',
         'ftruncate': 'truncate', 'fchmod': 'chmod', 'lchmod': 'chmod', 'fchown': 'chown', 'lchown': 'chown'}


def have_strace() -> bool:
    return shutil.which('strace') is not None


def parse_strace(path: str, B: str) -> T.Tuple[T.List[T.Tuple[str, str]], T.List[str]]:
    """(sequence of (kind, relative path) of mutating syscalls issued by the meson process itself - the first
    pid of the trace - on paths inside B outside meson-logs, sorted set of paths mutated by its children)"""
    pending: T.Dict[str, str] = {}
    out: T.List[T.Tuple[str, str]] = []
    main_pid: T.Optional[str] = None
    child_paths: T.Set[str] = set()

    def rel(p: str) -> T.Optional[str]:
        p = os.path.normpath(p)
        if p == B:
            return '.'
        if not p.startswith(B + '/'):
            return None
        r = p[len(B) + 1:]
        if r == 'meson-logs' or r.startswith('meson-logs/'):
            return None
        return r

    def strs(s: str) -> T.List[str]:
        return [m.encode('latin-1', 'backslashreplace').decode('unicode_escape').encode('latin-1').decode('utf-8', 'replace')
                for m in re.findall(r'"((?:[^"\\]|\\.)*)"', s)]

    with open(path, encoding='utf-8', errors='replace') as f:
        for line in f:
            line = line.rstrip('\n')
            m = re.match(r'^(\d+)\s+(.*)$', line)
            if not m:
                continue
            pid, rest = m.group(1), m.group(2)
            if main_pid is None:
                main_pid = pid
            if rest.endswith('<unfinished ...>'):
                pending[pid] = rest[:-len('<unfinished ...>')]
                continue
            mm = re.match(r'^<\.\.\. (\w+) resumed>(.*)$', rest)
            if mm:
                rest = pending.pop(pid, mm.group(1) + '(') + mm.group(2)
            m2 = re.match(r'^(\w+)\((.*)$', rest)
            if not m2:
                continue
            name, args = m2.group(1), m2.group(2)
            fds = re.findall(r'(?:\d+|AT_FDCWD)<([^>]*)>', args.split(') = ')[0])
            ss = strs(args.split(') = ')[0]) if name not in ('write', 'pwrite64', 'writev', 'pwritev') else []

            def full(i: int) -> T.Optional[str]:
                if i >= len(ss):
                    return None
                p = ss[i]
                if not p.startswith('/'):
                    base = fds[0] if fds else None
                    if base is None:
                        return None
                    p = base + '/' + p
                return p

            kind = None
            target: T.Optional[str] = None
            if name in ('openat', 'open', 'creat'):
                if name == 'creat' or re.search(r'O_WRONLY|O_RDWR|O_CREAT|O_TRUNC|O_APPEND', args):
                    kind, target = 'open', full(0)
            elif name in ('write', 'pwrite64', 'writev', 'pwritev', 'fsync', 'fdatasync', 'ftruncate', 'fchmod', 'fchown',
                          'fallocate', 'fsetxattr', 'sendfile', 'copy_file_range'):
                kind = {'pwrite64': 'write', 'writev': 'write', 'pwritev': 'write', 'fdatasync': 'fsync', 'ftruncate': 'truncate',
                        'fchmod': 'chmod', 'fchown': 'chown', 'fsetxattr': 'setxattr'}.get(name, name)
                cands = [p for p in fds if rel(p) is not None]
                target = cands[0] if cands else None
            elif name in ('rename', 'renameat', 'renameat2', 'link', 'linkat', 'symlink', 'symlinkat'):
                kind = 'rename' if name.startswith('rename') else ('link' if name.startswith('link') else 'symlink')
                target = full(len(ss) - 1) if ss else None
                if name.endswith('at') or name == 'renameat2':
                    # the destination may be relative to the second dirfd
                    if ss and not ss[-1].startswith('/') and len(fds) >= 1:
                        target = fds[-1] + '/' + ss[-1]
            elif name in ('unlink', 'rmdir', 'mkdir', 'mkdirat', 'chmod', 'fchmodat', 'truncate', 'chown', 'fchownat', 'lchown',
                          'setxattr', 'mknod', 'mknodat', 'utimensat', 'unlinkat'):
                kind = {'mkdirat': 'mkdir', 'fchmodat': 'chmod', 'fchownat': 'chown', 'lchown': 'chown', 'mknodat': 'mknod',
                        'utimensat': 'utime', 'unlinkat': 'rmdir' if 'AT_REMOVEDIR' in args else 'unlink'}.get(name, name)
                target = full(0) if ss else (fds[0] if fds else None)
            if kind is None or target is None:
                continue
            r = rel(target)
            if r is not None:
                if pid == main_pid:
                    out.append((kind, r))
                else:
                    child_paths.add(r)
    return out, sorted(child_paths)


def strace_compare(M: T.List[list], st: T.List[T.Tuple[str, str]]) -> T.Optional[str]:
    mine = [(_KIND.get(op, op), p) for op, p, _ in M]
    if mine == st:
        return None
    for i, (a, b) in enumerate(zip(mine, st)):
        if a != b:
            return f'position {i + 1}: shim logged {a}, strace saw {b} (shim {len(mine)} ops, strace {len(st)})'
    return f'lengths differ: shim {len(mine)}, strace {len(st)}; extra: {(mine[len(st):] or st[len(mine):])[:5]}'


# ---------------------------------------------------------------------------
# stage 1: per case, history + counting run + completed-X reference

def prepare(case: dict, root: str, pyc: str, inproc: bool, with_strace: bool) -> dict:
    site = Site(case, root, pyc)
    site.run_history(inproc)
    pre, _ = site.introspect(inproc) if case['history'] else (None, None)
    log = os.path.join(root, 'count.log')
    args = site.xargs()
    strace_note = None
    child_paths: T.List[str] = []
    if with_strace and have_strace():
        stf = os.path.join(root, 'strace.txt')
        env = mesondrv.base_env(shim_env(site.B, log))
        env.pop('PYTHONDONTWRITEBYTECODE', None)
        env['PYTHONPYCACHEPREFIX'] = pyc
        p = subprocess.run(['strace', '-f', '-y', '-s', '0', '-o', stf, '-e', 'trace=' + _ST_TRACE, mesondrv.PY, mesondrv.MESON_PY] + args,
                           cwd=root, env=env, stdout=subprocess.PIPE, stderr=subprocess.PIPE, stdin=subprocess.DEVNULL, timeout=600)
        r = mesondrv.Result(p.returncode, p.stdout.decode('utf-8', 'replace'), p.stderr.decode('utf-8', 'replace'))
        if os.path.exists(stf) and os.path.getsize(stf) > 0:
            st_ops, child_paths = parse_strace(stf, site.B)
            strace_note = strace_compare(read_mlist(log), st_ops) or 'agree'
        else:
            strace_note = 'strace produced no output (ptrace not permitted?)'
    else:
        r = sub(args, pyc, root, shim_env(site.B, log))
    if r.rc != 0 or r.unhandled:
        raise HarnessError(f'completed X {args} failed on the history {case["history"]}: {r!r}')
    M = read_mlist(log)
    if not M:
        raise HarnessError(f'crash shim logged no mutation for {args} (shim not loaded?)')
    post, ri = site.introspect(inproc)
    if post is None:
        raise HarnessError(f'introspect after the completed X failed: {ri!r}')
    post_digest = digest(site.B, site.root)
    child_paths = sorted({_TMPNAME.sub('tmp*', c) for c in child_paths})
    if pre is None:
        # unconfigured before X: "value from before" = what the prescribed follow-up alone yields
        site.reset()
        r2 = sub(followup_argv(case, site.B, site.S), pyc, root)
        pre, ri = site.introspect(inproc)
        if r2.rc != 0 or pre is None:
            raise HarnessError(f'reference follow-up on the pristine pre-state failed: {r2!r}')
    notes = []
    for name, val in case['x'][1].items():
        if name not in post or str(post[name]).lower() != str(val).lower():
            notes.append(f'completed X did not yield the requested value for {name}: {post.get(name)!r} vs {val!r}')
    return {'M': M, 'pre': pre, 'post': post, 'post_digest': post_digest, 'strace': strace_note, 'notes': notes,
            'child_paths': child_paths}


def _prep_shard(shard: T.Tuple[int, dict, str, str, str], ev: Evidence, fails: T.List[Failure]) -> None:
    idx, case, root, pyc, outfile = shard
    res = prepare(case, root, pyc, inproc=True, with_strace=True)
    with open(outfile, 'w', encoding='utf-8') as f:
        json.dump(res, f)
    shutil.rmtree(root, ignore_errors=True)


def points_of(M: T.List[list], ev: T.Optional[Evidence] = None) -> T.List[T.Tuple[int, str]]:
    pts: T.List[T.Tuple[int, str]] = []
    for i, (op, path, size) in enumerate(M, 1):
        pts.append((i, 'before'))
        if op in ('write', 'os.write'):
            if size >= 2:
                pts.append((i, 'torn'))
            elif ev is not None:
                ev.exclude('torn variant of a write shorter than 2 bytes (identical to the before-variant)')
    return pts


# ---------------------------------------------------------------------------
# stage 2: chunks of kill points

def _kill_shard(shard: T.Tuple[dict, str, str, dict, T.List[T.Tuple[int, str]], dict], ev: Evidence, fails: T.List[Failure]) -> None:
    case, root, pyc, prep, pts, defaults = shard
    site = Site(case, root, pyc)
    site.run_history(inproc=True)
    if case['history']:
        pre_here, _ = site.introspect(True)
        if pre_here != prep['pre']:
            raise HarnessError(f'history is not reproducible across directories: {case["history"]}')
    memo: dict = {}
    sigs: T.Set[str] = set()
    for k, mode in pts:
        for f in kill_and_judge(site, prep['M'], k, mode, prep['pre'], prep['post'], defaults, prep['post_digest'], True, memo, ev):
            ev.event('fail:' + f.sig)
            if f.sig not in sigs:
                sigs.add(f.sig)
                fails.append(f)
    shutil.rmtree(root, ignore_errors=True)


# ---------------------------------------------------------------------------
# authoritative single-case evaluation (everything in fresh subprocesses); used by replay() and to
# confirm + shrink every bucket before it is reported

def eval_case(full: dict, root: str, pyc: str, want_sig: T.Optional[str] = None) -> T.Optional[Failure]:
    case = {k: full[k] for k in ('variant', 'pre_dir', 'history', 'x')}
    prep = prepare(case, os.path.join(root, 'p'), pyc, inproc=False, with_strace=False)
    M = prep['M']
    k = None
    if full.get('op') is not None:
        occ = 0
        for i, m in enumerate(M, 1):
            if m[0] == full['op'] and _TMPNAME.sub('tmp*', m[1]) == _TMPNAME.sub('tmp*', full['path']):
                occ += 1
                if occ == full.get('occ', 1):
                    k = i
                    break
    if k is None:
        k = full['k']
    if k > len(M):
        return None
    mode = full.get('mode', 'before')
    if mode == 'torn' and M[k - 1][0] not in ('write', 'os.write'):
        mode = 'before'
    shutil.rmtree(os.path.join(root, 'p'), ignore_errors=True)
    site = Site(case, os.path.join(root, 'p'), pyc)
    site.run_history(inproc=False)
    defaults = _defaults(case['variant'], os.path.join(root, 'd'), pyc)
    fs = kill_and_judge(site, M, k, mode, prep['pre'], prep['post'], defaults, prep['post_digest'], False, None, None)
    for f in fs:
        if f.sig == want_sig:
            return f
    return fs[0] if fs else None


def _defaults(variant: str, root: str, pyc: str) -> T.Dict[str, T.Any]:
    site = Site({'variant': variant, 'pre_dir': 'absent', 'history': [['setup', {}]], 'x': ['wipe', {}]}, root, pyc)
    site.run_history(inproc=False)
    vals, r = site.introspect(False)
    shutil.rmtree(root, ignore_errors=True)
    if vals is None:
        raise HarnessError(f'cannot read default option values: {r!r}')
    return vals


def _confirm_shard(shard: T.Tuple[dict, str, str, str], ev: Evidence, fails: T.List[Failure]) -> None:
    fj, root, pyc, _ = shard
    f0 = Failure.from_json(fj)
    os.makedirs(root)
    f = eval_case(f0.case, os.path.join(root, 'a'), pyc, f0.sig)
    if f is None or f.sig != f0.sig:
        ev.inproc_only += 1
        ev.event('bucket not confirmed with subprocess-only history: ' + f0.sig)
        if f is not None:
            fails.append(f)
        return
    # shrink: same kill point (op, path, occurrence) after the shortest history
    best = f
    if len(f0.case['history']) > 1:
        small = dict(f0.case, history=[f0.case['history'][0]])
        try:
            g = eval_case(small, os.path.join(root, 'b'), pyc, f0.sig)
        except HarnessError:
            g = None
        if g is not None and g.sig == f0.sig:
            best = g
    fails.append(best)
    shutil.rmtree(root, ignore_errors=True)


# ---------------------------------------------------------------------------

def selftest(ctx: Ctx) -> None:
    if not os.path.isfile(os.path.join(SHIM, 'sitecustomize.py')):
        raise HarnessError('crash shim missing')
    # classifier + strace parser on fixed texts
    w, e = classify_crash('Traceback (most recent call last):\n  File "/x/mesonbuild/msetup.py", line 1, in run\n    a\n'
                          '  File "/x/mesonbuild/cmdline.py", line 67, in read_cmd_line_file\n    d = c["options"]\n'
                          '  File "/usr/lib/python3.12/configparser.py", line 941, in __getitem__\n    raise KeyError(key)\n'
                          "KeyError: 'options'\n\nERROR: Unhandled python exception\n")
    if w != 'cmd_line.txt' or e != "KeyError: 'options'":
        raise HarnessError(f'traceback classifier self-test failed: {w!r} {e!r}')
    # the shim really kills before mutation k and tears writes (tiny python child, no meson)
    d = os.path.join(ctx.scratch, 'shimtest')
    os.makedirs(os.path.join(d, 'r'))
    prog = ("import os,pickle,json,pathlib,shutil\nr=os.environ['R']\n"
            "with open(r+'/a.txt','w') as f:\n f.write('x'*10)\n f.write('y'*10)\n"
            "pickle.dump(list(range(50000)), open(r+'/p.dat','wb'))\n"
            "pathlib.Path(r+'/q.txt').write_text('hello')\n"
            "shutil.copyfile(r+'/a.txt', r+'/c.txt')\nos.replace(r+'/c.txt', r+'/a.txt')\n"
            "os.makedirs(r+'/d/e')\nshutil.rmtree(r+'/d')\n")
    base = {k: v for k, v in os.environ.items() if not k.startswith(('MESON_', 'PYTHON'))}

    def child(extra: T.Dict[str, str]) -> int:
        shutil.rmtree(os.path.join(d, 'r'))
        os.makedirs(os.path.join(d, 'r'))
        env = dict(base, R=os.path.join(d, 'r'), PYTHONPATH=SHIM, MESON_VERIF_ROOT=os.path.join(d, 'r'), **extra)
        return subprocess.run([mesondrv.PY, '-B', '-c', prog], env=env, stdin=subprocess.DEVNULL).returncode

    log = os.path.join(d, 'log')
    if child({'MESON_VERIF_COUNT': log}) != 0:
        raise HarnessError('shim self-test child failed')
    M = read_mlist(log)
    ops = [m[0] for m in M]
    paths = [m[1] for m in M]
    if M[0][:2] != ['open', 'a.txt'] or M[1] != ['write', 'a.txt', 20] or 'p.dat' not in paths or 'q.txt' not in paths \
            or ['replace', 'a.txt', -1] not in M or ops.count('mkdir') != 2 or ops.count('rmdir') != 2 \
            or sum(m[2] for m in M if m[:2] == ['write', 'p.dat']) < 100000 or ['write', 'c.txt', 20] not in M:
        raise HarnessError(f'shim self-test: unexpected mutation list {M}')
    if child({'MESON_VERIF_CRASH_AT': '2'}) != 137 or os.path.getsize(os.path.join(d, 'r', 'a.txt')) != 0:
        raise HarnessError('shim self-test: kill before write 2 must leave a.txt empty (buffer lost)')
    if child({'MESON_VERIF_CRASH_AT': '2', 'MESON_VERIF_CRASH_MODE': 'torn'}) != 137 or \
            open(os.path.join(d, 'r', 'a.txt')).read() != 'x' * 10:
        raise HarnessError('shim self-test: torn write 2 must leave the first half in a.txt')
    shutil.rmtree(d, ignore_errors=True)


def run(ctx: Ctx) -> None:
    import mesonbuild.mesonmain  # noqa: F401  (imported before forking so that workers share it)
    cases = gen_cases(ctx.seed, ctx.quick)
    scratch = ctx.scratch
    pyc = os.path.join(scratch, 'pyc')
    os.makedirs(pyc, exist_ok=True)
    work = os.path.join(scratch, 'w')
    os.makedirs(work)
    # warm the byte-code cache once (otherwise 16 workers all compile at the same time)
    sub(['--version'], pyc, scratch)
    defaults = {v: _defaults(v, os.path.join(work, 'dflt_' + v[:1]), pyc) for v in sorted({c['variant'] for c in cases})}

    # stage 1
    preps: T.List[dict] = []
    outs = [os.path.join(work, 'prep%03d.json' % i) for i in range(len(cases))]
    pmap(ctx, _prep_shard, [(i, c, os.path.join(work, '%03d_pp' % i), pyc, outs[i]) for i, c in enumerate(cases)])
    for o in outs:
        with open(o, encoding='utf-8') as f:
            preps.append(json.load(f))
    strace_state: T.Dict[str, int] = {}
    child_written: T.Dict[str, int] = {}
    per_case = []
    total = 0
    all_pts = []
    for i, (c, p) in enumerate(zip(cases, preps)):
        st = p['strace'] or 'not run'
        strace_state['agree' if st == 'agree' else st] = strace_state.get('agree' if st == 'agree' else st, 0) + 1
        for n in p['notes']:
            ctx.note(f'case {i}: {n}')
        for cp in p.get('child_paths', []):
            child_written[cp] = child_written.get(cp, 0) + 1
        pts = points_of(p['M'], ctx.ev)
        all_pts.append(pts)
        total += len(pts)
        per_case.append({'x': ' '.join(argv_for(c['x'][0], c['x'][1], 'B', 'S')),
                         'history': [' '.join(argv_for(h, o, 'B', 'S')) for h, o in c['history']] or [f'(none; build dir {c["pre_dir"]})'],
                         'variant': c['variant'], 'mutations': len(p['M']), 'kill_points': len(pts), 'exhaustive': True})
    bad = [s for s in strace_state if s not in ('agree', 'not run') and not s.startswith('strace produced no output')]
    if bad:
        raise HarnessError('a mutating syscall escaped the crash shim (or the shim logged a phantom one): ' + '; '.join(bad))

    # stage 2: contiguous chunks (neighbouring kill points share follow-up results for identical states)
    target = max(6, total // (16 * 4))
    shards = []
    for i, (c, p, pts) in enumerate(zip(cases, preps, all_pts)):
        nchunks = max(1, (len(pts) + target - 1) // target)
        size = (len(pts) + nchunks - 1) // nchunks
        for j in range(nchunks):
            chunk = pts[j * size:(j + 1) * size]
            if chunk:
                shards.append((c, os.path.join(work, '%03d_%02d' % (i, j)), pyc, p, chunk, defaults[c['variant']]))
    # longest first for load balance; results are merged per signature in shard order -> keep it deterministic
    order = sorted(range(len(shards)), key=lambda n: (-len(shards[n][4]) * (3 if shards[n][0]['variant'] == 'c' else 1), n))
    regress = dict(ctx.failures)
    ctx.failures = {}
    pmap(ctx, _kill_shard, [shards[n] for n in order])

    # every bucket is re-evaluated with subprocess-only history and shrunk to the shortest history
    found = sorted(ctx.failures.values(), key=lambda f: f.sig)
    ctx.failures = {}
    if found:
        pmap(ctx, _confirm_shard, [(f.to_json(), os.path.join(work, 'conf%02d' % n), pyc, '') for n, f in enumerate(found)])
    confirmed = ctx.failures
    ctx.failures = regress
    for f in confirmed.values():
        ctx.fail(f)

    ctx.exhaustive = True
    ctx.ev.extra['cases'] = per_case
    ctx.ev.extra['kill_points_total'] = total
    ctx.ev.extra['strace_crosscheck'] = strace_state
    ctx.ev.extra['paths_written_by_child_processes_not_kill_points'] = child_written
    ctx.ev.extra['exhaustive_scope'] = ('for each listed (history, X) every mutation index k of X is killed (before-variant) and every write '
                                        '>= 2 bytes is additionally torn; the histories themselves are sampled from the seed')


def replay(ctx: Ctx, case: T.Any, doc: dict) -> T.Optional[Failure]:
    pyc = os.path.join(ctx.scratch, 'pyc')
    os.makedirs(pyc, exist_ok=True)
    n = len(os.listdir(ctx.scratch))
    return eval_case(case, os.path.join(ctx.scratch, 'replay%03d' % n), pyc, doc.get('signature'))
