"""C16 - `meson format` preserves meaning and comments and is idempotent.

Inputs : (a) programs rendered by a grammar-based generator that places legal trivia in every gap,
         (b) token-mutated real build files that still parse, (c) the repo's own format test inputs,
         each under a Hypothesis-drawn formatter configuration (meson.format file, optional .editorconfig).
Oracle : independent reader harness/reffmt.py (own lexer, own parser, own escape decoder):
         out parses; norm(out) == norm(src); same comments in the same order; format(out) == out;
         CLI law for --check-only / --check-diff / --inplace / --output / stdout; no exception.
"""
from __future__ import annotations

import contextlib
import glob
import hashlib
import io
import json
import os
import subprocess
import sys
import typing as T

from harness.core import Ctx, Evidence, Failure, HarnessError, REPO, campaign, pmap, shard_seeds
from harness import reffmt as R

LEVEL = 'exploration'
RULE = ('grammar shards: Hypothesis composite renders a program (assignments, +=, if/elif/else, foreach, calls with '
        'args/kwargs, method chains, index, arrays, dicts, four string kinds, arithmetic/logic/comparison/ternary, files()) '
        'and draws the trivia of every gap between two tokens (spaces, tabs, newlines inside brackets, comments, blank '
        'lines, backslash continuations with and without comment), trailing commas, redundant parentheses, one-per-line '
        'vs flat argument lists, long names; corpus shards: every meson.build / *.meson of the repo, token-mutated '
        '(trivia insertion, comma toggles, paren wrapping, quote-kind changes, line joins/splits, token delete/dup/swap) '
        'and kept when the tool parser still accepts it; fixture shard: test cases/format inputs under their own and drawn '
        'configs; every case has a drawn configuration over all FormatterConfig fields (+ optional .editorconfig). '
        'non-trivial = the source has a comment inside brackets, or a continuation, or a line longer than the effective '
        'max_line_length, or a triple-quoted / f-string; distinct by sha1(src, cfg, editorconfig).')
ASSUMPTIONS = [
    'a "difference" for --check-only/--check-diff is judged on the text as the tool reads it (universal newlines); docs: end_of_line is "applied when using --output or --inline" only',
    'the exit status is the report of --check-diff; the printed diff must be non-empty whenever the line contents differ (a change of only the final newline cannot be shown by a line diff without terminators)',
    'integer literals are compared by value, identifiers/keywords/operators by spelling, keyword-argument and dict-entry order is significant',
    'legal configuration values: indent_by and indent_before_comments are strings of blanks/tabs (indent_by non-empty), tab_width >= 1, max_line_length >= 0',
    'with sort_files on, comments written inside a files(...) call may move with the re-ordered arguments: they are compared as a multiset there',
    'a "parseable build file" is one accepted by the tool parser AND by the documented grammar (Syntax.md); texts the tool parser accepts only through leniency (missing operands, positional after keyword argument, ...) are excluded and counted',
]

FIELDS = ['max_line_length', 'indent_by', 'space_array', 'kwargs_force_multiline', 'wide_colon', 'no_single_comma_function',
          'end_of_line', 'indent_before_comments', 'simplify_string_literals', 'insert_final_newline', 'tab_width',
          'sort_files', 'group_arg_value', 'use_editor_config']
BOOL_FIELDS = ['space_array', 'kwargs_force_multiline', 'wide_colon', 'no_single_comma_function', 'simplify_string_literals',
               'insert_final_newline', 'sort_files', 'group_arg_value']
# documented defaults (Commands.md, "The following options are recognized")
DOC_DEFAULTS = {'max_line_length': 80, 'simplify_string_literals': True, 'sort_files': False, 'end_of_line': 'native',
                'insert_final_newline': True}

# characters str.splitlines() treats as line boundaries besides \n (legal inside a comment)
ODD_SEPARATORS = '\x0b\x0c\x1c\x1d\x1e\x85\u2028\u2029\r'


# ---------------------------------------------------------------------------
# tree of the tool's own parser, rebuilt with an own visitor (only for the "lenient" class and cross-checks)

def mp_to_norm(n: T.Any) -> T.Any:
    import mesonbuild.mparser as mp
    if isinstance(n, mp.CodeBlockNode):
        return ('block', tuple(mp_to_norm(x) for x in n.lines))
    if isinstance(n, mp.PlusAssignmentNode):
        return ('plusassign', n.var_name.value, mp_to_norm(n.value))
    if isinstance(n, mp.AssignmentNode):
        return ('assign', n.var_name.value, mp_to_norm(n.value))
    if isinstance(n, mp.IfClauseNode):
        els = mp_to_norm(n.elseblock.block) if isinstance(n.elseblock, mp.ElseNode) else None
        return ('if', tuple((mp_to_norm(i.condition), mp_to_norm(i.block)) for i in n.ifs), els)
    if isinstance(n, mp.ForeachClauseNode):
        return ('foreach', tuple(v.value for v in n.varnames), mp_to_norm(n.items), mp_to_norm(n.block))
    if isinstance(n, mp.ContinueNode):
        return ('continue',)
    if isinstance(n, mp.BreakNode):
        return ('break',)
    if isinstance(n, mp.StringNode):
        return R.denote(n.is_fstring, n.is_multiline, n.raw_value)
    if isinstance(n, mp.NumberNode):
        return ('num', int(n.raw_value, 0))
    if isinstance(n, mp.BooleanNode):
        return ('bool', bool(n.value))
    if isinstance(n, mp.IdNode):
        return ('id', n.value)
    if isinstance(n, mp.ArrayNode):
        pos, kw = _mp_args(n.args, False)
        return ('array', pos) if not kw else ('array', pos, kw)
    if isinstance(n, mp.DictNode):
        return ('dict', _mp_args(n.args, True)[1])
    if isinstance(n, mp.FunctionNode):
        pos, kw = _mp_args(n.args, False)
        return ('call', n.func_name.value, pos, kw)
    if isinstance(n, mp.MethodNode):
        pos, kw = _mp_args(n.args, False)
        return ('method', mp_to_norm(n.source_object), n.name.value, pos, kw)
    if isinstance(n, mp.IndexNode):
        return ('index', mp_to_norm(n.iobject), mp_to_norm(n.index))
    if isinstance(n, mp.NotNode):
        return ('not', mp_to_norm(n.value))
    if isinstance(n, mp.UMinusNode):
        return ('neg', mp_to_norm(n.value))
    if isinstance(n, mp.ComparisonNode):
        return ('bin', ' '.join(n.ctype.split()), mp_to_norm(n.left), mp_to_norm(n.right))
    if isinstance(n, mp.ArithmeticNode):
        return ('bin', n.operation, mp_to_norm(n.left), mp_to_norm(n.right))
    if isinstance(n, mp.AndNode):
        return ('bin', 'and', mp_to_norm(n.left), mp_to_norm(n.right))
    if isinstance(n, mp.OrNode):
        return ('bin', 'or', mp_to_norm(n.left), mp_to_norm(n.right))
    if isinstance(n, mp.TernaryNode):
        return ('ternary', mp_to_norm(n.condition), mp_to_norm(n.trueblock), mp_to_norm(n.falseblock))
    if isinstance(n, mp.ParenthesizedNode):
        return mp_to_norm(n.inner)
    if isinstance(n, mp.EmptyNode):
        return ('empty',)
    raise HarnessError(f'mp_to_norm: unhandled node {type(n).__name__}')


def _mp_args(a: T.Any, is_dict: bool) -> T.Tuple[tuple, tuple]:
    import mesonbuild.mparser as mp
    pos = tuple(mp_to_norm(x) for x in a.arguments)
    kw = []
    for k, v in a.kwargs.items():
        if not is_dict and isinstance(k, mp.IdNode):
            kw.append((k.value, mp_to_norm(v)))
        else:
            kw.append((mp_to_norm(k), mp_to_norm(v)))
    return pos, tuple(kw)


# ---------------------------------------------------------------------------
# worker state: scratch dir, formatter per configuration, CLI parser

class _Worker:
    def __init__(self, scratch: str):
        import argparse
        from mesonbuild import mformat, mlog
        mlog._logger.log_disable_stdout = True      # parser warnings (duplicate kwargs, ...) are not under test
        self.pid = os.getpid()
        self.root = os.path.join(scratch, f'w{os.getpid()}')
        os.makedirs(self.root, exist_ok=True)
        self.cache: T.Dict[str, T.Tuple[T.Any, str]] = {}
        self.argp = argparse.ArgumentParser()
        mformat.add_arguments(self.argp)

    def setup(self, cfg: dict, ec: T.Optional[dict], ec_flag: bool) -> T.Tuple[T.Any, str]:
        """(Formatter, directory) for a configuration; the directory holds meson.format (+ .editorconfig)"""
        from pathlib import Path
        from mesonbuild.mformat import Formatter
        key = json.dumps([cfg, ec, ec_flag], sort_keys=True)
        hit = self.cache.get(key)
        if hit is not None:
            return hit
        d = os.path.join(self.root, hashlib.sha1(key.encode()).hexdigest()[:16])
        os.makedirs(d, exist_ok=True)
        with open(os.path.join(d, 'meson.format'), 'w', encoding='utf-8', newline='') as fh:
            fh.write(render_config(cfg))
        if ec is not None:
            with open(os.path.join(d, '.editorconfig'), 'w', encoding='utf-8', newline='') as fh:
                fh.write(render_editorconfig(ec))
        fm = Formatter(Path(d, 'meson.format'), bool(ec_flag), False)
        if len(self.cache) > 4000:
            self.cache.clear()
        self.cache[key] = (fm, d)
        return fm, d


_W: T.Optional[_Worker] = None


def worker(scratch: str) -> _Worker:
    global _W
    if _W is None or _W.pid != os.getpid() or not _W.root.startswith(scratch):      # never share directories across forks
        _W = _Worker(scratch)
    return _W


def render_config(cfg: dict) -> str:
    lines = ['; generated']
    for k in FIELDS:
        if k not in cfg or cfg[k] is None:
            continue
        v = cfg[k]
        if isinstance(v, bool):
            lines.append(f'{k} = {"true" if v else "false"}')
        elif isinstance(v, int):
            lines.append(f'{k} = {v}')
        elif k in ('indent_by', 'indent_before_comments'):
            lines.append(f"{k} = '{v}'")
        else:
            lines.append(f'{k} = {v}')
    return '\n'.join(lines) + '\n'


def render_editorconfig(ec: dict) -> str:
    lines = ['root = true', '', f'[{ec.get("section", "*")}]']
    for k in ('indent_style', 'indent_size', 'tab_width', 'end_of_line', 'insert_final_newline', 'max_line_length'):
        if ec.get(k) is not None:
            v = ec[k]
            lines.append(f'{k} = {("true" if v else "false") if isinstance(v, bool) else v}')
    return '\n'.join(lines) + '\n'


def effective(case: dict, key: str) -> T.Any:
    """documented effective value of an option: meson.format > .editorconfig > documented default"""
    cfg = case.get('cfg') or {}
    if cfg.get(key) is not None:
        return cfg[key]
    ec = case.get('ec')
    if ec is not None and (case.get('ec_flag') or cfg.get('use_editor_config')):
        if key == 'max_line_length' and ec.get('max_line_length') is not None:
            return 0 if ec['max_line_length'] == 'off' else int(ec['max_line_length'])
        if key == 'end_of_line' and ec.get('end_of_line'):
            return ec['end_of_line']
    return DOC_DEFAULTS.get(key)


# ---------------------------------------------------------------------------
# known genuine defects on the pinned tree: classifiers used to (a) keep them out of the random
# campaign (counted with ev.exclude) and (b) give their failures a specific signature.

def ml_backslash_hazard(body: str) -> bool:
    """a '''body''' without newline and quote that the simplifier turns into 'body': the body would be
    re-read with escape processing, which changes the denoted text (or un-terminates the literal)"""
    if '\n' in body or "'" in body or '\\' not in body:
        return False
    if body.endswith('\\') and (len(body) - len(body.rstrip('\\'))) % 2 == 1:
        return True
    try:
        return R.decode_escapes(body) != body
    except R.RefError:
        return True


def files_calls(toks: T.List[R.Tok]) -> T.List[T.Tuple[int, int]]:
    """(index of '(' , index of matching ')') for every call of a function spelled `files`"""
    sig = [k for k, t in enumerate(toks) if t.kind not in ('comment', 'cont', 'nl')]
    out = []
    for a, b in zip(sig, sig[1:]):
        if toks[a].kind == 'id' and toks[a].text == 'files' and toks[b].kind == 'op' and toks[b].text == '(':
            d = 0
            for k in range(b, len(toks)):
                t = toks[k]
                if t.kind == 'op' and t.text in '([{':
                    d += 1
                elif t.kind == 'op' and t.text in ')]}':
                    d -= 1
                    if d == 0:
                        out.append((b, k))
                        break
    return out


class Hazard(T.NamedTuple):
    sig: str                       # signature given to a failure of one of `families` when the hazard is present
    families: T.Tuple[str, ...]    # first component of the generic signature it can show up as
    why: str


def _sig_toks(toks: T.List[R.Tok]) -> T.List[int]:
    return [k for k, t in enumerate(toks) if t.kind not in ('comment', 'cont', 'nl', 'eof')]


def _match(toks: T.List[R.Tok], k: int) -> int:
    """index of the bracket closing the opener at index k"""
    d = 0
    for q in range(k, len(toks)):
        t = toks[q]
        if t.kind == 'op' and t.text in '([{':
            d += 1
        elif t.kind == 'op' and t.text in ')]}':
            d -= 1
            if d == 0:
                return q
    return len(toks) - 1


def _has_comment(toks: T.List[R.Tok], a: int, b: int) -> bool:
    return any(t.kind in ('comment', 'cont') and t.val is not None for t in toks[a:b])


def _files_list_tail_comment(toks: T.List[R.Tok]) -> bool:
    """files( [ ... ] <comment> ) : a comment between the closing ] of the only argument and the closing )"""
    for a, b in files_calls(toks):
        inner = [k for k in range(a + 1, b) if toks[k].kind not in ('comment', 'cont', 'nl')]
        if not inner or not (toks[inner[0]].kind == 'op' and toks[inner[0]].text == '['):
            continue
        m = _match(toks, inner[0])
        rest = [k for k in inner if k > m]
        if all(toks[k].kind == 'op' and toks[k].text == ',' for k in rest) and len(rest) <= 1 and _has_comment(toks, m, b):
            return True
    return False


def _files_empty_list_comment(toks: T.List[R.Tok]) -> bool:
    for a, b in files_calls(toks):
        inner = [k for k in range(a + 1, b) if toks[k].kind not in ('comment', 'cont', 'nl')]
        if len(inner) >= 2 and toks[inner[0]].text == '[' and toks[inner[1]].text == ']' and _has_comment(toks, inner[0], inner[1]):
            return True
    return False


def _single_arg_call(toks: T.List[R.Tok]) -> bool:
    """name( one_argument ) or name( one_argument , ) - a call (function or method) with exactly one argument"""
    sig = _sig_toks(toks)
    for x, y in zip(sig, sig[1:]):
        if toks[x].kind == 'id' and toks[y].kind == 'op' and toks[y].text == '(':
            e = _match(toks, y)
            inner = [k for k in sig if y < k < e]
            views = [inner]
            if toks[x].text == 'files' and inner and toks[inner[0]].kind == 'op' and toks[inner[0]].text == '[':
                m = _match(toks, inner[0])
                if all(toks[k].text == ',' for k in inner if k > m):       # files([...]) may be flattened first
                    views.append([k for k in inner if inner[0] < k < m])
            for view in views:
                if not view:
                    continue
                trailing = toks[view[-1]].kind == 'op' and toks[view[-1]].text == ','
                d = 0
                commas = 0
                for k in view:
                    t = toks[k]
                    if t.kind == 'op' and t.text in '([{':
                        d += 1
                    elif t.kind == 'op' and t.text in ')]}':
                        d -= 1
                    elif d == 0 and t.kind == 'op' and t.text == ',':
                        commas += 1
                if commas == (1 if trailing else 0):
                    return True
    return False


def _grouping_paren_with_brackets(toks: T.List[R.Tok]) -> bool:
    """a grouping parenthesis (one that is not a call's) which contains another bracket of any kind"""
    sig = [k for k, t in enumerate(toks) if t.kind not in ('comment', 'cont', 'eof') and not (t.kind == 'nl' and t.depth > 0)]
    for n, k in enumerate(sig):
        t = toks[k]
        if t.kind == 'op' and t.text == '(' and not (n > 0 and toks[sig[n - 1]].kind == 'id'):
            e = _match(toks, k)
            if any(toks[q].kind == 'op' and toks[q].text in '([{' for q in range(k + 1, e)):
                return True
    return False


def hazards(case: dict, toks: T.List[R.Tok], tree: T.Any) -> T.List[Hazard]:
    hz = []
    if _grouping_paren_with_brackets(toks):
        hz.append(Hazard('idempotence/multiline-parens-closer-indent', ('idempotence',),
                         'a parenthesised expression that the line-length rule breaks and that holds another bracket: inner closers are mis-indented by the first run'))
    if effective(case, 'simplify_string_literals'):
        if False and any(t.kind == 'str' and t.val[1] and ml_backslash_hazard(t.val[2]) for t in toks):   # fixed in /repo: no longer a hazard class
            hz.append(Hazard('string/ml-backslash-simplified', ('output', 'meaning'),
                             'a triple-quoted literal holding a backslash escape (or ending in a backslash) is rewritten to a plain one'))
    if any(t.kind in ('comment', 'cont') and t.val is not None and any(c in t.val.rstrip() for c in ODD_SEPARATORS) for t in toks):
        hz.append(Hazard('comments/line-separator-char-dropped', ('comments',),
                         'a comment holds a character that str.splitlines() treats as a line boundary (FF, VT, FS/GS/RS, NEL, LS, PS, CR)'))
    if effective(case, 'sort_files') and _unsorted_files_list(tree):
        hz.append(Hazard('idempotence/sort_files-after-flatten', ('idempotence',),
                         'sort_files with files([...]): the list is flattened after sorting, so it is only sorted by a second run'))
    if any(t.kind == 'cont' and t.depth > 0 for t in toks):
        hz.append(Hazard('idempotence/continuation-in-brackets', ('idempotence',),
                         'a backslash continuation written inside brackets: the enclosing argument lists are only laid out one-per-line by the second run'))
    if _files_empty_list_comment(toks):
        hz.append(Hazard('idempotence/files-empty-list-comment', ('idempotence',),
                         'files([ # comment ]) with nothing else in the list: left alone by a one-round run, flattened when a long line elsewhere causes another round'))
    if _files_list_tail_comment(toks):
        hz.append(Hazard('comments/lost:files-list-flatten', ('comments',),
                         'files([...] # comment ) : flattening the list drops what is written between ] and )'))
    if (case.get('cfg') or {}).get('no_single_comma_function') and _single_arg_call(toks):
        hz.append(Hazard('idempotence/no_single_comma_function', ('idempotence',),
                         'with no_single_comma_function a one-argument call laid out one-per-line keeps no trailing comma, so the next run decides its layout anew'))
    return hz


def refine(sig: str, hz: T.List[Hazard]) -> str:
    fam = sig.split('/', 1)[0]
    for h in hz:
        if fam in h.families:
            return h.sig
    return sig


def _unsorted_files_list(tree: T.Any) -> bool:
    """some files([a, b, ...]) (single array-literal argument) whose elements are not all equal"""
    if not isinstance(tree, tuple):
        return False
    if len(tree) == 4 and tree[0] == 'call' and tree[1] == 'files':
        pos, kw = tree[2], tree[3]
        if len(pos) == 1 and not kw and isinstance(pos[0], tuple) and pos[0][:1] == ('array',) and len(set(map(repr, pos[0][1]))) > 1:
            return True
    return any(_unsorted_files_list(x) for x in tree)


# ---------------------------------------------------------------------------
# the oracle

class Info:
    """what evaluate() learned about a case (for evidence)"""
    def __init__(self) -> None:
        self.excluded: T.List[str] = []
        self.nontrivial = False
        self.lenient = False
        self.evaluated = False
        self.events: T.List[str] = []


def tool_parse(src: str) -> T.Any:
    import mesonbuild.mparser as mp
    return mp.Parser(src, 'meson.build').parse()


def comment_multiset_ok(case: dict, toks: T.List[R.Tok]) -> bool:
    """sort_files may move comments that sit inside a files(...) call"""
    if not effective(case, 'sort_files'):
        return False
    for a, b in files_calls(toks):
        if any(t.kind in ('comment', 'cont') and t.val is not None for t in toks[a:b]):
            return True
    return False


def is_nontrivial(case: dict, src: str, toks: T.List[R.Tok]) -> bool:
    mll = effective(case, 'max_line_length')
    for t in toks:
        if t.kind == 'cont' or (t.kind == 'comment' and t.depth > 0) or (t.kind == 'str' and (t.val[0] or t.val[1])):
            return True
    return any(len(line) > mll for line in src.split('\n'))


def evaluate(case: dict, W: _Worker, allow_known: bool = False, info: T.Optional[Info] = None) -> T.Optional[Failure]:
    """run the whole oracle on one case = {'src', 'cfg', 'ec', 'ec_flag', 'cli'}"""
    from pathlib import Path
    from mesonbuild.mesonlib import MesonException
    info = info if info is not None else Info()
    src: str = case['src']
    cfg: dict = case.get('cfg') or {}
    rcase = {k: case[k] for k in ('src', 'cfg', 'ec', 'ec_flag', 'cli', 'explicit_c') if k in case}

    # -- preconditions: "every parseable build file"
    try:
        mp_src = tool_parse(src)
    except MesonException:
        info.excluded.append('not parseable by the tool parser')
        return None
    except RecursionError:
        info.excluded.append('tool parser RecursionError (tracked under C02)')
        return None
    try:
        toks = R.lex(src)
    except R.RefError:
        info.excluded.append('tool parser accepts, reference lexer rejects (newline in plain string, stray bytes; C02 territory)')
        return None
    sort_files = bool(effective(case, 'sort_files'))
    try:
        raw_src = R.parse(src)
        strict = True
    except R.RefError:
        # accepted by the tool parser only through its leniency (missing operands, positional after keyword
        # argument, statement and block keyword on one line ...): not a build file in the documented grammar
        info.lenient = True
        info.excluded.append('tool parser accepts, documented grammar does not (parser leniency, C02 territory)')
        return None
    if strict:
        mp_tree = mp_to_norm(mp_src)
        if mp_tree != raw_src:
            info.excluded.append('reference tree and tool-parser tree of the SOURCE differ (parser matter, C02)')
            info.events.append('ref_vs_tool_tree_mismatch')
            return None
    hz = hazards(case, toks, raw_src)
    skip: T.Set[str] = set()          # clauses not judged because a known finding of that family is present
    if hz and not allow_known:
        for h in hz:
            if 'output' in h.families or 'meaning' in h.families:
                info.excluded.append(f'known finding {h.sig}: {h.why}')
                return None
            info.excluded.append(f'clause skipped, known finding {h.sig}: {h.why}')
            skip.update(h.families)
    want = R.simplify(raw_src, sort_files)
    want_comments = [t.val.rstrip() for t in toks if t.kind in ('comment', 'cont') and t.val is not None]
    info.nontrivial = is_nontrivial(case, src, toks)
    info.evaluated = True

    fm, d = W.setup(cfg, case.get('ec'), bool(case.get('ec_flag')))
    path = Path(d, 'meson.build')

    # -- (6) no exception on a parseable input
    try:
        out = fm.format(src, path)
    except RecursionError:
        info.excluded.append('formatter RecursionError on deep nesting (parser-depth matter, C02)')
        info.evaluated = False
        return None
    except Exception as e:
        kind = 'rejects-parseable-input' if isinstance(e, MesonException) else 'crash'
        return Failure(f'format/{kind}:{type(e).__name__}', rcase, f'format() raised {type(e).__name__}: {str(e)[:300]} on a parseable input\n--- src\n{src}')

    # -- (1) out parses
    try:
        mp_out = tool_parse(out)
    except MesonException as e:
        return Failure(refine('output/unparseable', hz), rcase, f'formatted text does not parse: {str(e)[:300]}\n--- src\n{src}\n--- out\n{out}')
    try:
        out_toks = R.lex(out)
        got_raw = R.parse(out) if strict else mp_to_norm(mp_out)
    except R.RefError as e:
        return Failure('output/outside-documented-grammar', rcase,
                       f'source is in the documented grammar, formatted text is not ({e})\n--- src\n{src}\n--- out\n{out}')
    # -- (2) same program
    got = R.simplify(got_raw, sort_files)
    if got != want:
        where = R.first_diff(want, got)
        return Failure(refine(classify_meaning(want, got), hz), rcase,
                       f'formatted text is a different program; source tree vs output tree {where}\n--- src\n{src}\n--- out\n{out}')
    # -- (3) same comments, same order
    got_comments = [t.val.rstrip() for t in out_toks if t.kind in ('comment', 'cont') and t.val is not None]
    if got_comments != want_comments and 'comments' not in skip:
        if not (comment_multiset_ok(case, toks) and sorted(got_comments) == sorted(want_comments)):
            return Failure(refine(classify_comments(want_comments, got_comments), hz), rcase,
                           f'comments differ: expected {want_comments!r}\n got {got_comments!r}\n--- src\n{src}\n--- out\n{out}')
        info.events.append('comments_compared_as_multiset(sort_files)')
    # -- (4) second pass is a no-op
    try:
        out2 = fm.format(out, path)
    except Exception as e:
        return Failure(f'idempotence/second-pass-raises:{type(e).__name__}', rcase,
                       f'formatting the result again raised {e!r}\n--- src\n{src}\n--- out\n{out}')
    if out2 != out and 'idempotence' not in skip:
        try:
            out3 = fm.format(out2, path)
        except Exception:
            out3 = None
        return Failure(refine(classify_idem(out, out2, out3), hz), rcase,
                       f'formatting the result again changes it ({"stable after the 2nd pass" if out3 == out2 else "still changing after the 2nd pass"})'
                       f'\n--- src\n{src}\n--- out (1st)\n{out}\n--- out (2nd)\n{out2}')
    # -- (5) CLI law
    if case.get('cli'):
        f = cli_law(case, rcase, W, d, src, out)
        if f is not None:
            return f
    return None


def _strings(tree: T.Any, acc: T.List[tuple]) -> None:
    if isinstance(tree, tuple):
        if tree[:1] == ('str',) and len(tree) == 3 and isinstance(tree[1], bool) and isinstance(tree[2], str):
            acc.append(tree)
            return
        for x in tree:
            _strings(x, acc)


def _skeleton(tree: T.Any) -> T.Any:
    if isinstance(tree, tuple):
        if tree[:1] == ('str',) and len(tree) == 3 and isinstance(tree[1], bool) and isinstance(tree[2], str):
            return ('str',)
        return tuple(_skeleton(x) for x in tree)
    return tree


def classify_meaning(want: T.Any, got: T.Any) -> str:
    if _skeleton(want) == _skeleton(got):
        a: T.List[tuple] = []
        b: T.List[tuple] = []
        _strings(want, a)
        _strings(got, b)
        for x, y in zip(a, b):
            if x != y:
                if x[2] != y[2]:
                    return 'meaning/string-text-changed'
                return 'meaning/fstring-flag-changed'
    where = R.first_diff(want, got)
    tag = 'tree'
    if where.startswith('at '):
        p = where[3:].split(':', 1)[0]
        segs = [s.split('[')[0] for s in p.split('/') if s]
        segs = [s for s in segs if s]
        if segs:
            tag = segs[-1]
    return f'meaning/changed-in:{tag}'


def classify_comments(want: T.List[str], got: T.List[str]) -> str:
    if sorted(want) == sorted(got):
        return 'comments/reordered'
    sw, sg = list(want), list(got)
    for c in got:
        if c in sw:
            sw.remove(c)
    for c in want:
        if c in sg:
            sg.remove(c)
    # sw: comments missing from the output; sg: comments only in the output
    if sw and sg:
        return 'comments/altered'
    if sw:
        return 'comments/lost'
    return 'comments/added'


def classify_idem(out: str, out2: str, out3: T.Optional[str]) -> str:
    """shape of the difference between the first and the second run (features of the changed lines only,
    so that shrinking the rest of the file does not change the signature)"""
    import difflib
    a, b = out.split('\n'), out2.split('\n')
    da: T.List[str] = []
    db: T.List[str] = []
    for tag, i1, i2, j1, j2 in difflib.SequenceMatcher(None, a, b, autojunk=False).get_opcodes():
        if tag != 'equal':
            da.extend(a[i1:i2])
            db.extend(b[j1:j2])
    if [x.strip() for x in da] == [x.strip() for x in db]:
        shape = 'indentation'
    elif ''.join(''.join(da).split()) == ''.join(''.join(db).split()):
        shape = 'rejoined' if len(db) < len(da) else ('resplit' if len(db) > len(da) else 'blanks')
    elif ''.join(''.join(da).split()).replace(',', '') == ''.join(''.join(db).split()).replace(',', ''):
        shape = 'commas'
    else:
        shape = 'other'
    return f'idempotence/{shape}' + ('' if out3 == out2 else ':unstable')


def cli_law(case: dict, rcase: dict, W: _Worker, d: str, src: str, out: str) -> T.Optional[Failure]:
    """--check-only returns 1 iff src != out; --check-diff same status and shows the change;
    --inplace / --output write out (with the configured line ending); plain run prints out."""
    from pathlib import Path
    from mesonbuild import mformat
    path = os.path.join(d, 'meson.build')
    opath = os.path.join(d, 'formatted.out')
    stored = src.replace('\n', '\r\n') if case.get('crlf') else src

    def put() -> None:
        with open(path, 'w', encoding='utf-8', newline='') as fh:
            fh.write(stored)

    def run(flags: T.List[str]) -> T.Tuple[int, str]:
        args = list(flags)
        if case.get('explicit_c', True):
            args += ['-c', os.path.join(d, 'meson.format')]
        if case.get('ec_flag'):
            args += ['-e']
        args.append(path)
        buf = io.StringIO()
        with contextlib.redirect_stdout(buf):
            rc = mformat.run(W.argp.parse_args(args))
        return rc, buf.getvalue()

    changed = src != out
    eol = {'crlf': '\r\n', 'cr': '\r', 'lf': '\n'}.get(effective(case, 'end_of_line') or 'native', os.linesep)
    tail = f'\n--- src\n{src}\n--- out\n{out}'
    put()
    try:
        rc, txt = run(['--check-only'])
        if rc != int(changed) or txt:
            return Failure('cli/check-only', rcase, f'--check-only returned {rc} (printed {txt!r}); formatting {"changes" if changed else "does not change"} the file' + tail)
        rc, txt = run(['--check-diff'])
        if rc != int(changed):
            return Failure('cli/check-diff-status', rcase, f'--check-diff returned {rc}; formatting {"changes" if changed else "does not change"} the file' + tail)
        lines_differ = src.splitlines() != out.splitlines()
        if (not changed and txt.strip()) or (lines_differ and not any(l.startswith(('+', '-')) and not l.startswith(('+++', '---')) for l in txt.splitlines())):
            return Failure('cli/check-diff-text', rcase, f'--check-diff printed {txt!r}; formatting {"changes" if changed else "does not change"} the file' + tail)
        rc, txt = run([])
        if rc != 0 or txt != out:
            return Failure('cli/stdout', rcase, f'plain run returned {rc} and printed {txt!r}, expected the formatted text' + tail)
        rc, txt = run(['--output', opath])
        with open(opath, 'rb') as fh:
            got = fh.read().decode('utf-8')
        if rc != 0 or got != out.replace('\n', eol):
            return Failure('cli/output', rcase, f'--output wrote {got!r}, expected {out.replace(chr(10), eol)!r}' + tail)
        with open(path, 'rb') as fh:
            if fh.read().decode('utf-8') != stored:
                return Failure('cli/source-modified-without-inplace', rcase, 'a run without --inplace modified the source file' + tail)
        rc, txt = run(['--inplace'])
        with open(path, 'rb') as fh:
            got = fh.read().decode('utf-8')
        if rc != 0 or got != out.replace('\n', eol):
            return Failure('cli/inplace', rcase, f'--inplace left {got!r}, expected {out.replace(chr(10), eol)!r}' + tail)
    except Exception as e:
        return Failure(f'cli/raises:{type(e).__name__}', rcase, f'mformat.run raised {e!r}' + tail)
    return None


# ---------------------------------------------------------------------------
# configuration strategy (legal values only: see FormatterConfig getters and the option list in Commands.md)

class Ent:
    """entropy source: one Hypothesis-drawn byte string per case, consumed left to right.  Exhausted or
    zeroed entropy yields 0 everywhere = the plainest choice (what the shrinker steers towards)."""

    def __init__(self, data: bytes):
        self.d = data
        self.i = 0

    def below(self, n: int) -> int:
        if n <= 1 or self.i >= len(self.d):
            return 0
        v = self.d[self.i]
        self.i += 1
        if n > 256:
            v = v * 256 + (self.d[self.i] if self.i < len(self.d) else 0)
            self.i += 1
            if n > 65536:
                v = v * 256 + (self.d[self.i] if self.i < len(self.d) else 0)
                self.i += 1
        return v % n

    def pick(self, seq: T.Sequence[T.Any]) -> T.Any:
        return seq[self.below(len(seq))]


CFG_CHOICES: T.Dict[str, T.List[T.Any]] = {
    'max_line_length': [None, None, None, 0, 1, 10, 20, 30, 40, 60, 80, 120, 1000],
    'indent_by': [None, None, None, ' ', '  ', '   ', '    ', '        ', '\t', '\t\t', ' \t'],
    'end_of_line': [None, None, 'lf', 'crlf', 'cr', 'native'],
    'indent_before_comments': [None, None, '', ' ', '  ', '    ', '\t'],
    'tab_width': [None, None, 1, 2, 3, 4, 8],
}
EC_CHOICES: T.Dict[str, T.List[T.Any]] = {
    'section': ['*', '*.build', 'meson.build', '*.{build,meson}', '**.build'],
    'indent_style': [None, 'space', 'tab'],
    'indent_size': [None, 1, 2, 3, 8],
    'tab_width': [None, 2, 8],
    'end_of_line': [None, 'lf', 'crlf', 'cr'],
    'insert_final_newline': [None, True, False],
    'max_line_length': [None, 'off', 20, 50, 100],
}


def gen_config(ent: Ent, case: dict) -> dict:
    """legal values only: see the FormatterConfig getters and the option list in Commands.md"""
    cfg: dict = {}
    if ent.below(3) != 0:
        for k in FIELDS:
            if k == 'use_editor_config':
                continue
            v = ent.pick(CFG_CHOICES[k]) if k in CFG_CHOICES else ent.pick([None, None, True, False])
            if v is not None:
                cfg[k] = v
    ec = None
    via_flag = False
    if ent.below(4) == 1:
        ec = {k: ent.pick(v) for k, v in EC_CHOICES.items()}
        via_flag = ent.below(2) == 1
        if not via_flag:
            cfg['use_editor_config'] = True
    case['cfg'] = cfg
    case['ec'] = ec
    case['ec_flag'] = bool(ec is not None and via_flag)
    case['cli'] = ent.below(4) == 1
    case['crlf'] = ent.below(4) == 1
    case['explicit_c'] = ent.below(2) == 0
    return case


# ---------------------------------------------------------------------------
# grammar-based generator with trivia in every gap

IDS = ['x', 'y', 'a', 'b', 'i', 'foo', 'bar', 'srcs', 'deps', 'cc', 'cfg', '_p', 'T1', 'host_machine', 'meson',
       'long_identifier_number_one', 'another_quite_long_variable_name_for_line_length']
FUNCS = ['f', 'message', 'executable', 'dependency', 'get_option', 'custom_target', 'include_directories',
         'some_really_long_function_name_for_splitting', 'files']
METHODS = ['get', 'format', 'found', 'split', 'to_string', 'version', 'contains', 'keys', 'a_very_long_method_name_here']
KWNAMES = ['sources', 'dependencies', 'install', 'required', 'c_args', 'name', 'version', 'native', 'k', 'input', 'output', 'command']
FILENAMES = ['a.c', 'b.c', 'b10.c', 'b2.c', 'sub/z.c', 'A.c', 'main.cpp', 'sub/a.c', 'x_1.c', 'x_01.c']
STR_PIECES = ['a', 'b', 'abc', ' ', 'foo bar', 'x.c', '/', '-', '--opt', '#', '[', '(', ')', ',', ':', '@', '@x@', '@0@', '@ x@',
              'é', '→', '"', '{', '}', 'lorem ipsum dolor sit amet', '%', '=']
ESC_PIECES = ['\\x40', '\\x40x\\x40', '\\100y\\100', '\\\\', "\\'", '\\n', '\\t', '\\x41', '\\101', '\\7', '\\u00e9', '\\U0001f600', '\\N{BULLET}', '\\q', '\\ ', '\\x4', '\\d+', '\\@']
ML_PIECES = ['\n', '\n  ', "'", "''", ' # not a comment\n', '\\', '\\n', '\\\\', '\\d', "\\'", '\t']
COMMENT_BODIES = ['# c{n}', '#c{n}', '# c{n}   ', '#', '##  c{n}', "# it's c{n} 'q' ''' [ ( {{", '# c{n} \\', '#!c{n}', '# é→ c{n}',
                  '#\tc{n}', '# c{n} # more', '#  ', '# c{n} trailing\t ']

LVL = {'ternary': 1, 'or': 2, 'and': 3, 'cmp': 4, 'add': 5, 'mul': 6, 'not': 7, 'neg': 7,
       'call': 8, 'files': 8, 'method': 8, 'index': 8, 'id': 9, 'num': 9, 'bool': 9, 'str': 9, 'array': 9, 'dict': 9}
ATOMS = ['id', 'id', 'num', 'bool', 'str', 'str', 'str']
COMPOUND = ['call', 'call', 'method', 'method', 'index', 'array', 'array', 'dict', 'files', 'add', 'add', 'mul', 'cmp', 'and', 'or',
            'not', 'neg', 'ternary']


class Em:
    """text emitter: every token is preceded by a drawn gap that is legal at that place"""

    def __init__(self, ent: Ent, wild: int, simplify_on: bool):
        self.ent = ent
        self.wild = wild                 # 0: canonical gaps only ... 3: half of the gaps are odd
        self.p = [0, 4, 18, 50][wild]
        self.out: T.List[str] = []
        self.depth = 0
        self.prev_word = False
        self.at_line_start = True
        self.comments: T.List[str] = []
        self.ncom = 0
        self.pending = ''
        self.simplify_on = simplify_on
        self.defused = 0

    def chance(self, pct: int) -> bool:
        return self.ent.below(100) >= 100 - pct        # zero / exhausted entropy -> False

    def pick(self, seq: T.Sequence[T.Any]) -> T.Any:
        return seq[self.ent.below(len(seq))]

    def rint(self, lo: int, hi: int) -> int:
        return lo + self.ent.below(hi - lo + 1)

    def comment(self) -> str:
        self.ncom += 1
        c = self.pick(COMMENT_BODIES).format(n=self.ncom)
        self.comments.append(c.rstrip())
        return c

    def spaces(self) -> str:
        return self.pick(['', ' ', '  ', '    ', '\t', '      ', ' \t'])

    def gap(self, need: bool) -> str:
        base = ' ' if need else ''
        if self.p == 0 or self.ent.below(100) < 100 - self.p:
            return base
        if self.depth > 0:
            k = self.pick([0, 0, 1, 1, 2, 2, 2, 3, 3, 3, 4, 4, 4, 5, 5, 8, 8, 9, 9, 2, 3, 4, 6, 7])   # continuations inside brackets are rare
            if k == 0:
                return ' '
            if k == 1:
                return self.pick(['  ', '\t', ' \t ', '   '])
            if k == 2:
                return '\n' + self.spaces()
            if k == 3:
                return ' ' + self.comment() + '\n' + self.spaces()
            if k == 4:
                return '\n' + self.spaces() + self.comment() + '\n' + self.spaces()
            if k == 5:
                return '\n\n' + self.spaces()
            if k == 6:
                return ' \\\n' + self.spaces()
            if k == 7:
                return self.spaces() + '\\ ' + self.comment() + '\n' + self.spaces()
            if k == 8:
                return ' ' + self.comment() + '\n' + self.spaces() + self.comment() + '\n'
            return '\n' + self.spaces() + '\n' + self.spaces() + self.comment() + '\n\n'
        k = self.rint(0, 5)
        if k == 0:
            return ' '
        if k == 1:
            return self.pick(['  ', '\t', '   '])
        if k in (2, 3):
            return ' \\\n' + self.spaces()
        if k == 4:
            return ' \\' + self.pick(['', ' ', '\t']) + self.comment() + '\n' + self.spaces()
        return '\\\n'

    def tok(self, text: str) -> None:
        ws = text[0] in R.ID_CONT
        if self.at_line_start:
            self.at_line_start = False
            g = ''
        else:
            g = self.pending if self.pending else self.gap(self.prev_word and ws)
        self.pending = ''
        if text in (')', ']', '}'):
            self.depth -= 1
        self.out.append(g)
        self.out.append(text)
        if text in ('(', '[', '{'):
            self.depth += 1
        self.prev_word = text[-1] in R.ID_CONT

    def force_nl(self, ind: int) -> None:
        """newline (inside brackets) before the next token, one-argument-per-line style"""
        assert self.depth > 0
        tail = ''
        if self.p and self.chance(self.p):
            tail = self.pick([' ', '  ']) + self.comment()
        self.pending = tail + '\n' + (self.spaces() if self.p and self.chance(self.p) else '    ' * ind)

    def indent(self, level: int) -> None:
        assert self.depth == 0
        if self.p and self.chance(self.p):
            self.out.append(self.spaces())
        else:
            self.out.append('    ' * level)
        self.at_line_start = True
        self.prev_word = False

    def eol(self) -> None:
        """end of a statement line: optional blanks, optional comment, newline, optional blank/comment lines"""
        assert self.depth == 0
        s = ''
        if self.p and self.chance(self.p):
            s += self.pick([' ', '  ', '\t'])
        if self.chance(6 + self.p // 2):
            s += self.pick(['', ' ', '  ', '\t']) + self.comment()
        s += '\n'
        while self.chance(4 + self.p // 3):
            k = self.rint(0, 3)
            if k == 0:
                s += '\n'
            elif k == 1:
                s += self.spaces() + self.comment() + '\n'
            elif k == 2:
                s += self.spaces() + '\n'
            else:
                s += '\n\n\n'
        self.out.append(s)
        self.at_line_start = True
        self.prev_word = False

    def text(self) -> str:
        return ''.join(self.out)


def g_string(em: Em, filename: bool = False) -> str:
    if filename:
        body = em.pick(FILENAMES)
        return "'" + body + "'"
    kind = em.rint(0, 9)     # 0-5 plain, 6-7 triple, 8 f, 9 f-triple
    n = em.rint(0, 4)
    if kind <= 5 or kind == 8:
        parts = []
        for _ in range(n):
            parts.append(em.pick(ESC_PIECES) if em.chance(15) else em.pick(STR_PIECES))
        body = ''.join(parts)
        return ('f' if kind == 8 else '') + "'" + body + "'"
    parts = []
    for _ in range(n):
        parts.append(em.pick(ML_PIECES) if em.chance(35) else em.pick(STR_PIECES))
    body = ''.join(parts)
    body = body.replace("'''", "''")
    while body.endswith("'"):
        body = body[:-1]
    if "'''" in body:
        body = body.replace("'", '')
    if False and em.simplify_on and ml_backslash_hazard(body):     # (the class is generated again: fixed in /repo)
        body += '\n'                       # keeps the backslash, takes the literal out of the known-defect class
        em.defused += 1
    return ('f' if kind == 9 else '') + "'''" + body + "'''"


def g_args(em: Em, d: int, tern_ok: bool, ind: int, kw_ok: bool = True, only_strings: bool = False, dict_mode: bool = False) -> None:
    """comma separated items up to (not including) the closer"""
    npos = 0 if dict_mode else em.rint(0, 4)
    nkw = em.rint(0, 3) if (kw_ok or dict_mode) else 0
    if only_strings:
        nkw = 0
    total = npos + nkw
    ml = total > 0 and em.chance(25)
    names = list(KWNAMES)
    for k in range(total):
        if ml:
            em.force_nl(ind + 1)
        if k < npos:
            if only_strings and not em.chance(8):
                em.tok(g_string(em, filename=True))
            else:
                g_expr(em, 1, d - 1, tern_ok, ind + 1)
        elif dict_mode:
            if em.chance(80):
                em.tok("'" + em.pick(['k', 'key', 'a b', 'x', 'name']) + str(k) + "'")
            else:
                g_expr(em, 1, 0, tern_ok, ind + 1)
            em.tok(':')
            g_expr(em, 1, d - 1, tern_ok, ind + 1)
        else:
            name = names.pop(em.rint(0, len(names) - 1))
            em.tok(name)
            em.tok(':')
            g_expr(em, 1, d - 1, tern_ok, ind + 1)
        last = k == total - 1
        if not last or em.chance(50 if ml else 12):
            em.tok(',')
    if ml and em.chance(85):
        em.force_nl(ind)


def g_expr(em: Em, lvl: int, d: int, tern_ok: bool, ind: int) -> None:
    kind = em.pick(ATOMS) if d <= 0 or em.chance(35) else em.pick(COMPOUND)
    if kind == 'ternary' and not tern_ok:
        kind = 'id'
    need_par = LVL[kind] < lvl
    npar = (1 if need_par else 0) + (1 if em.chance(4) else 0)
    if npar == 2 and em.chance(50):
        npar = 3
    for _ in range(npar):
        em.tok('(')
    _g_node(em, kind, d, tern_ok, ind)
    for _ in range(npar):
        em.tok(')')


def _g_node(em: Em, kind: str, d: int, tern_ok: bool, ind: int) -> None:
    if kind == 'id':
        em.tok(em.pick(IDS))
    elif kind == 'num':
        em.tok(em.pick(['0', '1', '2', '42', '100', '0x1F', '0o17', '0b101', '0XfF', '123456789']))
    elif kind == 'bool':
        em.tok(em.pick(['true', 'false']))
    elif kind == 'str':
        em.tok(g_string(em))
    elif kind == 'array':
        em.tok('[')
        g_args(em, d, tern_ok, ind, kw_ok=False)
        em.tok(']')
    elif kind == 'dict':
        em.tok('{')
        g_args(em, d, tern_ok, ind, dict_mode=True)
        em.tok('}')
    elif kind == 'call':
        em.tok(em.pick(FUNCS[:-1]))
        em.tok('(')
        g_args(em, d, tern_ok, ind)
        em.tok(')')
    elif kind == 'files':
        em.tok('files')
        em.tok('(')
        if em.chance(40):
            em.tok('[')
            g_args(em, 1, tern_ok, ind + 1, kw_ok=False, only_strings=True)
            em.tok(']')
            if em.chance(25):
                # a leading list FOLLOWED by further arguments: not the documented single-list form, nothing may be flattened away
                em.tok(',')
                em.tok(em.pick(["'extra.c'", "'x/y.c'", "'z.c'"]))
                if em.chance(40):
                    em.tok(',')
                    em.tok(em.pick(["'more.c'", "['nested.c']"]))
            elif em.chance(10):
                em.tok(',')
        else:
            g_args(em, 1, tern_ok, ind, kw_ok=False, only_strings=True)
        em.tok(')')
    elif kind == 'method':
        g_expr(em, 8, d - 1, tern_ok, ind)
        em.tok('.')
        em.tok(em.pick(METHODS))
        em.tok('(')
        g_args(em, d - 1, tern_ok, ind)
        em.tok(')')
    elif kind == 'index':
        g_expr(em, 8, d - 1, tern_ok, ind)
        em.tok('[')
        g_expr(em, 1, d - 1, tern_ok, ind)
        em.tok(']')
    elif kind in ('not', 'neg'):
        em.tok('not' if kind == 'not' else '-')
        g_expr(em, 8, d - 1, tern_ok, ind)
    elif kind in ('add', 'mul', 'and', 'or'):
        g_expr(em, LVL[kind], d - 1, tern_ok, ind)
        em.tok(em.pick({'add': ['+', '-'], 'mul': ['*', '/', '%'], 'and': ['and'], 'or': ['or']}[kind]))
        g_expr(em, LVL[kind] + 1, d - 1, tern_ok, ind)
    elif kind == 'cmp':
        g_expr(em, 5, d - 1, tern_ok, ind)
        op = em.pick(['==', '!=', '<', '<=', '>', '>=', 'in', 'not in'])
        for w in op.split():
            em.tok(w)
        g_expr(em, 5, d - 1, tern_ok, ind)
    elif kind == 'ternary':
        g_expr(em, 2, d - 1, False, ind)
        em.tok('?')
        g_expr(em, 2, d - 1, False, ind)
        em.tok(':')
        g_expr(em, 2, d - 1, False, ind)
    else:
        raise HarnessError(kind)


def g_block(em: Em, ind: int, d: int, in_loop: bool, nmax: int) -> None:
    n = em.rint(0, nmax)
    for _ in range(n):
        g_stmt(em, ind, d, in_loop)


def g_stmt(em: Em, ind: int, d: int, in_loop: bool) -> None:
    kinds = ['assign', 'assign', 'assign', 'assign', 'plusassign', 'call', 'call', 'method', 'files']
    if d > 0:
        kinds += ['if', 'if', 'foreach']
    if in_loop:
        kinds += ['continue', 'break']
    kind = em.pick(kinds)
    em.indent(ind)
    if kind in ('assign', 'plusassign'):
        em.tok(em.pick(IDS))
        em.tok('=' if kind == 'assign' else '+=')
        g_expr(em, 1, 2 if em.chance(70) else 3, True, ind)
        em.eol()
    elif kind == 'files':
        em.tok(em.pick(IDS))
        em.tok('=')
        _g_node(em, 'files', 1, True, ind)
        em.eol()
    elif kind == 'call':
        _g_node(em, 'call', 2, True, ind)
        em.eol()
    elif kind == 'method':
        _g_node(em, 'method', 2, True, ind)
        em.eol()
    elif kind in ('continue', 'break'):
        em.tok(kind)
        em.eol()
    elif kind == 'if':
        em.tok('if')
        g_expr(em, 1, 2, True, ind)
        em.eol()
        g_block(em, ind + 1, d - 1, in_loop, 3)
        for _ in range(em.rint(0, 2) if em.chance(40) else 0):
            em.indent(ind)
            em.tok('elif')
            g_expr(em, 1, 1, True, ind)
            em.eol()
            g_block(em, ind + 1, d - 1, in_loop, 2)
        if em.chance(40):
            em.indent(ind)
            em.tok('else')
            em.eol()
            g_block(em, ind + 1, d - 1, in_loop, 2)
        em.indent(ind)
        em.tok('endif')
        em.eol()
    elif kind == 'foreach':
        em.tok('foreach')
        em.tok(em.pick(IDS))
        if em.chance(35):
            em.tok(',')
            em.tok(em.pick(IDS))
        em.tok(':')
        g_expr(em, 1, 1, True, ind)
        em.eol()
        g_block(em, ind + 1, d - 1, True, 3)
        em.indent(ind)
        em.tok('endforeach')
        em.eol()


def build_program(data: bytes) -> dict:
    ent = Ent(data)
    case: dict = {}
    gen_config(ent, case)
    simplify_on = case['cfg'].get('simplify_string_literals', True) is not False
    wild = ent.pick([0, 1, 1, 2, 2, 3])
    em = Em(ent, wild, simplify_on)
    # leading blank / comment lines
    if em.chance(15):
        for _ in range(em.rint(1, 3)):
            em.out.append(em.pick(['\n', '  \n']) if em.chance(40) else em.spaces() + em.comment() + '\n')
    g_block(em, 0, 2, False, 5)
    src = em.text()
    end = em.rint(0, 9)
    if end == 1:
        src = src.rstrip('\n')                                  # missing final newline
    elif end == 2:
        src = src + '\n\n'
    elif end == 3:
        src = src + em.spaces() + em.comment()                  # trailing comment without newline
    elif end == 4:
        src = src + '   '
    case['src'] = src
    case['kind'] = f'grammar/wild{wild}'
    case['emitted_comments'] = list(em.comments)
    case['defused'] = em.defused
    return case


def st_program() -> T.Any:
    from hypothesis import strategies as st
    return st.binary(min_size=1200, max_size=1200).map(build_program)


SPECIAL_SOURCES = ['', '\n', '\n\n\n', '# only a comment', '# only a comment\n', '  # indented comment\n\n# second\n', '   ', '\t\n',
                   'x = 1', 'x = 1\n\n\n', '\n\nx = 1\n', '#\n', 'x = 1 # c\n# d', 'if true\nendif', 'foreach i : []\nendforeach\n',
                   'f()\n', 'f(\n)\n', 'x = []\n', 'x = {}\n', 'x = [\n]\n', 'x = [ # c\n]\n', 'f( # c\n)\n', 'x = { # c\n}\n',
                   'if true # c1\n  # c2\nelse # c3\n  # c4\nendif # c5\n', 'foreach a, b : d # c1\n  # c2\nendforeach # c3\n']


# ---------------------------------------------------------------------------
# corpus and token mutation

_CORPUS: T.Optional[T.List[T.Tuple[str, str]]] = None


def corpus() -> T.List[T.Tuple[str, str]]:
    """(relative path, text) of every build file of the repo that decodes as UTF-8, sorted"""
    global _CORPUS
    if _CORPUS is None:
        paths = set()
        for pat in ('**/meson.build', '**/*.meson', '**/meson.options', '**/meson_options.txt'):
            paths.update(glob.glob(os.path.join(REPO, pat), recursive=True))
        out = []
        for p in sorted(paths):
            try:
                with open(p, encoding='utf-8') as fh:       # universal newlines, as the tool reads files
                    out.append((os.path.relpath(p, REPO), fh.read()))
            except (UnicodeDecodeError, OSError):
                continue
        _CORPUS = out
    return _CORPUS


def mutate(src: str, ops: T.List[T.Tuple[int, int, int]]) -> T.Tuple[str, T.List[str]]:
    """apply token-level edits; each op = (kind, position selector, parameter). Returns (text, applied op names)"""
    try:
        toks = R.lex(src)
    except R.RefError:
        return src, []
    # pieces: [gap0, tok0, gap1, tok1, ...]; gaps are the exact blanks between tokens
    toks = toks[:-1]
    if not toks:
        return src, []
    gaps = []
    pos = 0
    for t in toks:
        gaps.append(src[pos:t.pos])
        pos = t.pos + len(t.text)
    tail = src[pos:]
    texts = [t.text for t in toks]
    applied = []
    ncom = [0]

    def com(p: int) -> str:
        ncom[0] += 1
        return ['# m%d', '#m%d', '# m%d  ', '## m%d \\'][p % 4] % ncom[0]

    for kind, sel, par in ops:
        n = len(toks)
        k = sel % n
        t = toks[k]
        name = None
        if kind == 0:                      # trivia before token k (legal for its depth)
            if t.kind in ('nl', 'comment', 'cont'):
                continue
            inner = t.depth > 0 and k > 0
            if inner:
                tr = [' ', '  ', '\t', '\n', '\n        ', ' ' + com(par) + '\n', '\n' + com(par) + '\n  ', '\n\n', ' \\\n', ' \\ ' + com(par) + '\n'][par % 10]
            else:
                if k == 0 or toks[k - 1].kind in ('nl', 'comment', 'cont'):
                    tr = ['  ', '\t', ' ', '        '][par % 4]       # indentation of a line
                else:
                    tr = [' ', '  ', '\t', ' \\\n', ' \\\n    ', ' \\ ' + com(par) + '\n'][par % 6]
            gaps[k] = gaps[k] + tr
            name = 'trivia'
        elif kind == 1:                    # end-of-line comment / blank line / comment line at a statement newline
            if t.kind != 'nl' or t.depth > 0:
                continue
            if k > 0 and toks[k - 1].kind == 'comment':
                texts[k] = '\n' + ['\n', com(par) + '\n', '   \n'][par % 3]
            else:
                texts[k] = [' ' + com(par) + '\n', com(par) + '\n', '\n\n', '\n' + com(par) + '\n', '  \n'][par % 5]
            name = 'eol'
        elif kind == 2:                    # toggle the trailing comma before a closer
            if not (t.kind == 'op' and t.text in (')', ']', '}')):
                continue
            j = k - 1
            while j >= 0 and toks[j].kind in ('nl', 'comment', 'cont'):
                j -= 1
            if j < 0:
                continue
            if texts[j] == ',':
                texts[j] = ''
            elif texts[j] not in ('(', '[', '{', ''):
                texts[j] = texts[j] + ','
            else:
                continue
            name = 'comma'
        elif kind == 3:                    # parenthesise an atom
            if t.kind not in ('id', 'num', 'str') and not (t.kind == 'kw' and t.text in ('true', 'false')):
                continue
            nxt = toks[k + 1] if k + 1 < n else None
            prv = toks[k - 1] if k > 0 else None
            if nxt is not None and nxt.kind == 'op' and nxt.text in ('(', ':', '=', '+='):
                continue
            if prv is not None and ((prv.kind == 'op' and prv.text == '.') or (prv.kind == 'kw' and prv.text == 'foreach')):
                continue
            rep = par % 3 + 1
            texts[k] = '(' * rep + texts[k] + ')' * rep
            name = 'parens'
        elif kind == 4:                    # change the kind of a string literal (the mutated text is the new source)
            if t.kind != 'str':
                continue
            is_f, is_ml, body = t.val
            m = par % 3
            if m == 0 and not is_ml and '\\' not in body and "'" not in body:
                texts[k] = ('f' if is_f else '') + "'''" + body + "'''"
            elif m == 1 and not is_f and not (k > 0 and toks[k - 1].kind in ('id', 'kw', 'num') and gaps[k] == ''):
                texts[k] = 'f' + texts[k]
            elif m == 2 and is_ml and '\n' not in body and '\\' not in body and "'" not in body:
                texts[k] = ('f' if is_f else '') + "'" + body + "'"
            else:
                continue
            name = 'quotes'
        elif kind == 5:                    # join / split lines inside brackets
            if t.depth == 0 or k == 0 or t.kind in ('nl', 'comment', 'cont'):
                continue
            if toks[k - 1].kind == 'nl' and not (k > 1 and toks[k - 2].kind == 'comment'):
                texts[k - 1] = ' '
                gaps[k] = ''
                name = 'join'
            elif toks[k - 1].kind not in ('nl', 'comment', 'cont'):
                gaps[k] = '\n' + ' ' * (par % 9)
                name = 'split'
            else:
                continue
        elif kind == 6:                    # delete a token
            if t.kind in ('nl', 'comment', 'cont'):
                continue
            texts[k] = ''
            name = 'delete'
        elif kind == 7:                    # duplicate a token
            if t.kind in ('nl', 'cont'):
                continue
            texts[k] = texts[k] + ' ' + t.text if t.kind != 'comment' else texts[k]
            name = 'dup'
        elif kind == 8:                    # swap with the next significant token
            if k + 1 >= n or t.kind in ('nl', 'comment', 'cont') or toks[k + 1].kind in ('nl', 'comment', 'cont'):
                continue
            texts[k], texts[k + 1] = texts[k + 1], texts[k]
            name = 'swap'
        elif kind == 9:                    # long identifier (pushes lines over max_line_length)
            if t.kind != 'id':
                continue
            nxt = toks[k + 1] if k + 1 < n else None
            if nxt is not None and nxt.kind == 'op' and nxt.text in ('(', ':'):
                continue
            old = t.text
            new = old + '_' + 'long' * (par % 12 + 1)
            texts = [new if (tt == old and toks[q].kind == 'id' and not (q + 1 < n and toks[q + 1].kind == 'op' and toks[q + 1].text in ('(', ':'))) else tt
                     for q, tt in enumerate(texts)]
            name = 'rename'
        if name:
            applied.append(name)
    return ''.join(g + t for g, t in zip(gaps, texts)) + tail, applied


def build_mutant(data: bytes, nfiles: int, max_size: int) -> dict:
    ent = Ent(data)
    case: dict = {}
    gen_config(ent, case)
    files = [c for c in corpus() if len(c[1]) <= max_size][:nfiles]
    rel, text = files[ent.below(len(files))]
    safe = [0, 0, 0, 1, 1, 2, 2, 3, 4, 5, 5, 9]
    ops = [(ent.pick(safe), ent.below(1 << 20), ent.below(64)) for _ in range(ent.below(9))]
    if ent.below(3) == 1:
        ops += [(ent.below(10), ent.below(1 << 20), ent.below(64)) for _ in range(1 + ent.below(2))]
    src, applied = mutate(text, ops)
    case.update({'src': src, 'kind': 'corpus-mutated' if applied else 'corpus-plain', 'file': rel, 'ops': applied})
    return case


def st_mutant(nfiles: int, max_size: int) -> T.Any:
    from hypothesis import strategies as st
    return st.binary(min_size=96, max_size=96).map(lambda d: build_mutant(d, nfiles, max_size))


# ---------------------------------------------------------------------------
# shrinking polish: text-level ddmin (lines, then tokens) + configuration minimisation

def polish(f: Failure, W: _Worker, budget: int = 8000) -> Failure:
    from harness.core import minimize_list
    case = dict(f.case)
    sig = f.sig
    best = [f]
    calls = [0]
    i0 = Info()
    evaluate(case, W, allow_known=True, info=i0)

    def still(c: dict) -> bool:
        calls[0] += 1
        if calls[0] > budget:
            return False
        inf = Info()
        try:
            g = evaluate(c, W, allow_known=True, info=inf)
        except HarnessError:
            return False
        if inf.lenient and not i0.lenient:
            return False        # stay inside the documented grammar while shrinking
        if g is not None and g.sig == sig:
            best[0] = g
            return True
        return False

    # configuration: drop keys one by one
    for k in sorted(case.get('cfg') or {}):
        c2 = dict(case)
        c2['cfg'] = {a: b for a, b in case['cfg'].items() if a != k}
        if k == 'use_editor_config':
            c2['ec'] = None
        if still(c2):
            case = c2
    if case.get('ec') is not None:
        c2 = dict(case, ec=None, ec_flag=False)
        c2['cfg'] = {a: b for a, b in case['cfg'].items() if a != 'use_editor_config'}
        if still(c2):
            case = c2
    for k in ('cli', 'crlf'):
        if case.get(k) and not sig.startswith('cli/'):
            c2 = dict(case)
            c2[k] = False
            if still(c2):
                case = c2
    def drop_ranges(items: T.List[str], join: T.Callable[[T.List[str]], str], cap: int) -> T.List[str]:
        """remove contiguous ranges, longest first (finds balanced if/endif, (/) pairs that ddmin's fixed grid misses)"""
        nonlocal case
        used = 0
        size = len(items) - 1
        while size >= 1 and used < cap:
            i = 0
            progressed = False
            while i + size <= len(items) and used < cap:
                cand = items[:i] + items[i + size:]
                used += 1
                c2 = dict(case, src=join(cand))
                if cand and still(c2):
                    items = cand
                    case = c2
                    progressed = True
                else:
                    i += 1
            size = min(size, len(items) - 1) if progressed else size - 1
        return items

    for _round in range(3):
        before = case['src']
        lines = case['src'].split('\n')
        if len(lines) > 1:
            if len(lines) > 40:
                lines = minimize_list(lines, lambda ls: still(dict(case, src='\n'.join(ls))), max_tests=800)
                c2 = dict(case, src='\n'.join(lines))
                if c2['src'] != case['src'] and still(c2):
                    case = c2
            drop_ranges(case['src'].split('\n'), lambda ls: '\n'.join(ls), 1200)
        try:
            toks = R.lex(case['src'])[:-1]
        except R.RefError:
            break
        src = case['src']
        pieces = []
        pos = 0
        for t in toks:
            pieces.append(src[pos:t.pos] + t.text)
            pos = t.pos + len(t.text)
        tail = src[pos:]
        if len(pieces) > 1:
            if len(pieces) > 60:
                pieces = minimize_list(pieces, lambda ps: still(dict(case, src=''.join(ps) + tail)), max_tests=1500)
                c2 = dict(case, src=''.join(pieces) + tail)
                if c2['src'] != case['src'] and still(c2):
                    case = c2
                    src = case['src']
                    toks = R.lex(src)[:-1]
                    pieces = []
                    pos = 0
                    for t in toks:
                        pieces.append(src[pos:t.pos] + t.text)
                        pos = t.pos + len(t.text)
                    tail = src[pos:]
            pieces = drop_ranges(pieces, lambda ps: ''.join(ps) + tail, 2500)
            # matching bracket pairs (a redundant '(' ... ')' cannot go with one contiguous range)
            changed = True
            while changed:
                changed = False
                stack: T.List[int] = []
                pairs = []
                for q, pc in enumerate(pieces):
                    last = pc.strip()[-1:] if pc.strip() else ''
                    if last in ('(', '[', '{') and not pc.strip().startswith(('#', "'", "f'")):
                        stack.append(q)
                    elif last in (')', ']', '}') and stack and not pc.strip().startswith(('#', "'", "f'")):
                        pairs.append((stack.pop(), q))
                for a2, b2 in pairs:
                    cand = [x for q, x in enumerate(pieces) if q not in (a2, b2)]
                    c2 = dict(case, src=''.join(cand) + tail)
                    if still(c2):
                        pieces = cand
                        case = c2
                        changed = True
                        break
        if case['src'] == before:
            break
    # blanks: squeeze runs of spaces
    import re
    c2 = dict(case, src=re.sub(r'[ \t]{2,}', ' ', case['src']))
    if c2['src'] != case['src'] and still(c2):
        case = c2
    return best[0]


def confirm_subprocess(f: Failure, scratch: str) -> bool:
    """re-run the formatter on the failing source in a fresh interpreter and compare with the in-process output"""
    case = f.case
    d = os.path.join(scratch, 'confirm-' + hashlib.sha1(json.dumps(case, sort_keys=True).encode()).hexdigest()[:12])
    os.makedirs(d, exist_ok=True)
    with open(os.path.join(d, 'meson.format'), 'w', encoding='utf-8', newline='') as fh:
        fh.write(render_config(case.get('cfg') or {}))
    if case.get('ec') is not None:
        with open(os.path.join(d, '.editorconfig'), 'w', encoding='utf-8', newline='') as fh:
            fh.write(render_editorconfig(case['ec']))
    with open(os.path.join(d, 'meson.build'), 'w', encoding='utf-8', newline='') as fh:
        fh.write(case['src'])
    code = ('import sys, json\nsys.path.insert(0, %r)\nfrom pathlib import Path\nfrom mesonbuild.mformat import Formatter\n'
            'fm = Formatter(Path(%r), %r, False)\nsrc = open(%r, encoding="utf-8", newline="").read()\n'
            'try:\n    out = fm.format(src, Path(%r))\n    out2 = fm.format(out, Path(%r))\nexcept Exception as e:\n    out = out2 = "EXC " + type(e).__name__\n'
            'print(json.dumps([out, out2]))\n') % (REPO, os.path.join(d, 'meson.format'), bool(case.get('ec_flag')),
                                                  os.path.join(d, 'meson.build'), os.path.join(d, 'meson.build'), os.path.join(d, 'meson.build'))
    env = dict(os.environ, PYTHONHASHSEED='0')
    p = subprocess.run([sys.executable, '-c', code], capture_output=True, text=True, env=env, timeout=120)
    if p.returncode != 0:
        return True
    try:
        sub_out, sub_out2 = json.loads(p.stdout.strip().splitlines()[-1])
    except Exception:
        return True
    W = worker(scratch)
    fm, dd = W.setup(case.get('cfg') or {}, case.get('ec'), bool(case.get('ec_flag')))
    from pathlib import Path
    try:
        out = fm.format(case['src'], Path(dd, 'meson.build'))
        out2 = fm.format(out, Path(dd, 'meson.build'))
    except Exception as e:
        out = out2 = 'EXC ' + type(e).__name__
    return (out, out2) == (sub_out, sub_out2)


# ---------------------------------------------------------------------------
# shards

def _record(ev: Evidence, case: dict, info: Info) -> None:
    for e in info.excluded:
        ev.exclude(e)
    for e in info.events:
        ev.event(e)
    if case.get('defused'):
        ev.exclude('generator: triple-quoted body in the known ml-backslash class given a newline instead', case['defused'])
    if not info.evaluated:
        return
    cls = case.get('kind', 'case') + ('/lenient' if info.lenient else '')
    sample = {'src': case['src'][:600], 'cfg': case.get('cfg'), 'ec': case.get('ec')}
    key = json.dumps([case['src'], case.get('cfg'), case.get('ec'), case.get('ec_flag')], sort_keys=True)
    ev.case(None, nontrivial=info.nontrivial, cls=cls, sample=sample, fingerprint=hashlib.sha1(key.encode('utf-8', 'surrogatepass')).digest()[:8])
    if case.get('cli'):
        ev.event('cli_law_checked')
    if case.get('ec') is not None:
        ev.event('with_editorconfig')


def _campaign_shard(shard: T.Tuple[str, int, int, str, int, int], ev: Evidence, fails: T.List[Failure]) -> None:
    which, seed, n, scratch, nfiles, max_size = shard
    W = worker(scratch)
    strat = st_program() if which == 'grammar' else st_mutant(nfiles, max_size)

    def check(case: dict) -> T.Optional[Failure]:
        info = Info()
        if 'emitted_comments' in case:
            try:
                if R.comments_of(case['src']) != case['emitted_comments']:
                    raise HarnessError(f'generator/lexer disagree on the comments of {case["src"]!r}')
            except R.RefError as e:
                raise HarnessError(f'generator produced text the reference lexer rejects ({e}): {case["src"]!r}')
        f = evaluate(case, W, info=info)
        if 'emitted_comments' in case and not info.evaluated and not f and any('not parseable' in e for e in info.excluded):
            raise HarnessError(f'generator produced an unparseable program: {case["src"]!r}')
        _record(ev, case, info)
        return f

    local: T.List[Failure] = []
    campaign(strat, check, n, seed, local)
    for f in local:
        g = polish(f, W)
        if not confirm_subprocess(g, scratch):
            ev.inproc_only += 1
            continue
        fails.append(g)


def _fixed_shard(shard: T.Tuple[str, int, str], ev: Evidence, fails: T.List[Failure]) -> None:
    """deterministic cases: special sources x configurations, and the repo's format test inputs under their own configuration"""
    which, seed, scratch = shard
    W = worker(scratch)
    cases: T.List[dict] = []
    cfgs: T.List[dict] = [{}, {'max_line_length': 0}, {'max_line_length': 10, 'indent_by': '\t'}, {'insert_final_newline': False},
                          {'indent_before_comments': '', 'indent_by': ' '}, {'kwargs_force_multiline': True, 'no_single_comma_function': True},
                          {'space_array': True, 'wide_colon': True, 'sort_files': True, 'group_arg_value': True},
                          {'simplify_string_literals': False, 'end_of_line': 'crlf'}]
    if which == 'special':
        for s in SPECIAL_SOURCES:
            for c in cfgs:
                cases.append({'src': s, 'cfg': c, 'ec': None, 'ec_flag': False, 'cli': True, 'crlf': False, 'kind': 'special'})
    else:
        base = os.path.join(REPO, 'test cases', 'format')
        own = {'1 default': {}, '2 muon': _read_ini(os.path.join(base, '2 muon', 'muon.ini')),
               '4 config': _read_ini(os.path.join(base, '4 config', 'meson.format')),
               '6 natural sort': _read_ini(os.path.join(base, '6 natural sort', 'options.ini'))}
        for rel, text in corpus():
            if not rel.startswith(os.path.join('test cases', 'format') + os.sep):
                continue
            sub = rel.split(os.sep)[2]
            for c in ([own[sub]] if sub in own else []) + cfgs:
                cases.append({'src': text, 'cfg': c, 'ec': None, 'ec_flag': False, 'cli': True, 'crlf': False, 'kind': 'format-testcases', 'file': rel})
            if sub == '5 transform' and rel.endswith('source.meson'):
                for ini in ('default.ini', 'muon.ini', 'options.ini'):
                    cases.append({'src': text, 'cfg': _read_ini(os.path.join(base, sub, ini)), 'ec': None, 'ec_flag': False, 'cli': True,
                                  'crlf': False, 'kind': 'format-testcases', 'file': rel})
            if sub == '3 editorconfig':
                ec = {'section': '*', 'indent_style': 'tab', 'indent_size': 1, 'tab_width': 4, 'max_line_length': 60}
                cases.append({'src': text, 'cfg': {}, 'ec': ec, 'ec_flag': True, 'cli': True, 'crlf': False, 'kind': 'format-testcases', 'file': rel})
                cases.append({'src': text, 'cfg': {'use_editor_config': True}, 'ec': ec, 'ec_flag': False, 'cli': True, 'crlf': False, 'kind': 'format-testcases', 'file': rel})
    seen: T.Set[str] = set()
    for case in cases:
        info = Info()
        f = evaluate(case, W, info=info)
        _record(ev, case, info)
        if f is not None and f.sig not in seen:
            seen.add(f.sig)
            g = polish(f, W)
            if confirm_subprocess(g, scratch):
                fails.append(g)
            else:
                ev.inproc_only += 1


def _read_ini(path: str) -> dict:
    """the few `key = value` lines of the repo's sample configuration files -> cfg dict (own reader)"""
    cfg: dict = {}
    with open(path, encoding='utf-8') as fh:
        for line in fh:
            line = line.strip()
            if not line or line[0] in ';#[' or '=' not in line:
                continue
            k, v = [x.strip() for x in line.split('=', 1)]
            if k not in FIELDS:
                continue
            if v in ('true', 'false'):
                cfg[k] = v == 'true'
            elif v.isdigit():
                cfg[k] = int(v)
            else:
                cfg[k] = v.strip('"').strip("'")
    return cfg


def _corpus_plain_shard(shard: T.Tuple[int, int, int, str], ev: Evidence, fails: T.List[Failure]) -> None:
    """every corpus file unmodified, each under two configurations derived from the seed"""
    lo, hi, seed, scratch = shard
    import random
    W = worker(scratch)
    files = corpus()[lo:hi]
    seen: T.Set[str] = set()
    pool = [{}, {'max_line_length': 40}, {'max_line_length': 0, 'indent_by': '\t'}, {'kwargs_force_multiline': True, 'sort_files': True},
            {'indent_by': '  ', 'space_array': True, 'wide_colon': True}, {'simplify_string_literals': False, 'no_single_comma_function': True},
            {'max_line_length': 20, 'group_arg_value': True, 'indent_before_comments': ' '}, {'max_line_length': 120, 'insert_final_newline': False}]
    for k, (rel, text) in enumerate(files):
        rnd = random.Random(seed * 7919 + lo + k)
        for cfg in ({}, rnd.choice(pool[1:])):
            case = {'src': text, 'cfg': cfg, 'ec': None, 'ec_flag': False, 'cli': rnd.random() < 0.2, 'crlf': rnd.random() < 0.3,
                    'kind': 'corpus-plain', 'file': rel}
            info = Info()
            f = evaluate(case, W, info=info)
            _record(ev, case, info)
            if f is not None and f.sig not in seen:
                seen.add(f.sig)
                g = polish(f, W)
                if confirm_subprocess(g, scratch):
                    fails.append(g)
                else:
                    ev.inproc_only += 1


# ---------------------------------------------------------------------------
# known genuine defects: one deterministic probe each (also stored under replays/regress)

PROBES: T.List[T.Tuple[str, dict]] = [
    ('string/ml-backslash-simplified', {'src': "x = '''a\\nb'''\n", 'cfg': {}}),
    ('comments/line-separator-char-dropped', {'src': "x = 1 # a\x0cb\n", 'cfg': {}}),
    ('comments/lost:files-list-flatten', {'src': "x = files(['a'] # c\n)\n", 'cfg': {}}),
    ('idempotence/sort_files-after-flatten', {'src': "x = files(['b', 'a'])\n", 'cfg': {'sort_files': True}}),
    ('idempotence/no_single_comma_function', {'src': "f(a,)\n", 'cfg': {'no_single_comma_function': True}}),
    ('idempotence/multiline-parens-closer-indent', {'src': "x = (a + (b))\n", 'cfg': {'max_line_length': 10}}),
    ('idempotence/continuation-in-brackets', {'src': "test('manyfiles', executable( \\\n'manyfiles'))\n", 'cfg': {}}),
    ('idempotence/files-empty-list-comment',
     {'src': "x = f(aaaaaaaaaaaaaaaaaaaaaaaaaaaaa, bbbbbbbbbbbbbbbbbbbbbbbbbbbbbbbbbbb, ccccccccccccccccccccccccc)\nfiles([ # c\n])\n", 'cfg': {}}),
]


def selftest(ctx: Ctx) -> None:
    # escape decoder against the documented list (Syntax.md "Strings")
    table = {"contains a \\' character": "contains a ' character", 'C:\\\\foo\\\\bar': 'C:\\foo\\bar', '\\a\\b\\f\\n\\r\\t\\v': '\a\b\f\n\r\t\v',
             '\\101\\x41\\u0041\\U00000041': 'AAAA', '\\N{BULLET}': '\u2022', '\\q\\ \\x4': '\\q\\ \\x4', '\\7x\\1234': '\x07x\x534', 'a\\': 'a\\'}
    for raw, want in table.items():
        if R.decode_escapes(raw) != want:
            raise HarnessError(f'escape decoder self-test: {raw!r} -> {R.decode_escapes(raw)!r}, expected {want!r}')
    for text, want in {'@n@': True, 'int: @n@, string: @m@': True, '@': False, 'a@b': False, '@0@': False, '@n + m@': False, '@@n@': True, '': False}.items():
        if R.has_substitution(text) != want:
            raise HarnessError(f'has_substitution self-test failed on {text!r}')
    # normaliser identifies exactly the documented things
    eq = [("x = '''abc'''", "x = 'abc'", False), ("x = f'no'", "x = 'no'", False), ("x = files(['a', 'b'])", "x = files('a', 'b')", False),
          ("x = files('b', 'a')", "x = files('a', 'b')", True), ('x = ((a)) + [1, 2,]', 'x = a + [1,\n 2]', False), ("x = 0x10", "x = 16", False),
          ("x = '\\x41'", "x = 'A'", False)]
    ne = [("x = '''a\\nb'''", "x = 'a\\nb'", False), ("x = f'@a@'", "x = '@a@'", False), ("x = files('b', 'a')", "x = files('a', 'b')", False),
          ('x = (a + b) * c', 'x = a + b * c', False), ('f(a, b)', 'f(b, a)', True), ('x = [a, b]', 'x = [b, a]', True), ("g(['a'])", "g('a')", False),
          ('f(a: 1, b: 2)', 'f(b: 2, a: 1)', False), ('x = a - (b - c)', 'x = a - b - c', False), ('x = not (a == b)', 'x = not a == b', False)]
    for a, b, sf in eq:
        if R.parse_to_norm(a, sf) != R.parse_to_norm(b, sf):
            raise HarnessError(f'normaliser self-test: {a!r} and {b!r} must be identified')
    for a, b, sf in ne:
        if R.parse_to_norm(a, sf) == R.parse_to_norm(b, sf):
            raise HarnessError(f'normaliser self-test: {a!r} and {b!r} must differ')
    if R.comments_of("x = '#no' # yes  \n'''\n# no\n''' \\ # cont\n+ 1 #\n#last") != ['# yes', '# cont', '#', '#last']:
        raise HarnessError('comment extraction self-test failed')
    # reference reader agrees with the tool's parser on the repo's own format test inputs and the docs' grammar users
    from mesonbuild import mlog
    mlog._logger.log_disable_stdout = True
    n = 0
    for rel, text in corpus():
        if not rel.startswith(os.path.join('test cases', 'format')):
            continue
        try:
            a = R.parse(text)
        except R.RefError as e:
            raise HarnessError(f'reference parser rejects the pinned fixture {rel}: {e}')
        if a != mp_to_norm(tool_parse(text)):
            raise HarnessError(f'reference tree differs from tool-parser tree on the pinned fixture {rel}: {R.first_diff(a, mp_to_norm(tool_parse(text)))}')
        n += 1
    if n < 10:
        raise HarnessError('format fixtures not found')


def run(ctx: Ctx) -> None:
    scratch = ctx.scratch
    W = worker(scratch)
    # known findings: deterministic probes
    for _sig, p in PROBES:
        case = dict(p, ec=None, ec_flag=False, cli=False, crlf=False)
        f = evaluate(case, W, allow_known=True)
        ctx.ev.event('known_finding_probe')
        ctx.fail(f)
    seeds = shard_seeds(ctx, 64)
    pmap(ctx, _fixed_shard, [('special', ctx.seed, scratch), ('fixtures', ctx.seed, scratch)])
    files = corpus()
    nplain = ctx.n(480, len(files))
    step = max(1, (min(nplain, len(files)) + 15) // 16)
    import random
    start = random.Random(ctx.seed).randrange(0, max(1, len(files) - nplain + 1))
    pmap(ctx, _corpus_plain_shard, [(lo, min(lo + step, start + nplain), ctx.seed, scratch) for lo in range(start, start + nplain, step)])
    ng = ctx.n(600, 14000)
    nm = ctx.n(300, 7000)
    shards = [('grammar', seeds[i], ng, scratch, 0, 0) for i in range(16)] + \
             [('mutant', seeds[16 + i], nm, scratch, 4000, 6000) for i in range(16)]
    pmap(ctx, _campaign_shard, shards)
    ctx.ev.extra['corpus_files'] = len(files)


def replay(ctx: Ctx, case: T.Any, doc: dict) -> T.Optional[Failure]:
    W = worker(ctx.scratch)
    c = dict(case)
    c.setdefault('cfg', {})
    c.setdefault('ec', None)
    c.setdefault('ec_flag', False)
    return evaluate(c, W, allow_known=True)
