"""C08 - Option state persists faithfully across the build-directory lifecycle.

Generated histories (3-10 steps) of setup / configure -D / configure -U / setup --reconfigure /
setup --wipe / option-file edits / injected failures over ONE source tree (top project +
subprojects/sp, each with a meson.options) and ONE build directory, executed against the real
meson (in-process, `--backend=none`) and compared after every step with the reference model
harness/refoptlife.py through `meson introspect --buildoptions`, the get_option() message() lines of
every successful (re)configure, and the override list of `meson configure`.  Every history ends
with an observation epilogue (successful reconfigure, then --wipe).  A disagreement is re-run with
one fresh subprocess per command before it is reported.
"""
from __future__ import annotations

import copy
import json
import os
import re
import shutil
import typing as T

from harness.core import Ctx, Evidence, Failure, HarnessError, pmap, campaign, shard_seeds, fp
from harness import refoptlife as R
from harness.refoptlife import LifeModel, Invalid, Undefined, SP, BUILTIN, PER_SUBPROJECT

LEVEL = 'exploration'
RULE = ('Hypothesis composite strategy driving the reference model: random initial option files (string/boolean/integer/'
        'combo/array/free array/feature options in the top project and in subproject sp, yielding pairs y1/y2, same-name '
        'non-yielding pair s1) then 3-10 ops drawn state-dependently from {setup -D.., configure -D../-Usp:k, setup -D on a '
        'configured dir, setup --reconfigure -D.., setup --wipe, option-file edit (add/remove/change default/change choices or '
        'range/toggle yield/change project default_options), read-only introspect}, ~20% of mutating commands with an injected '
        'failure (error() early/late/in sp, option-file syntax error, invalid value, unknown option); every history gets the '
        'epilogue reconfigure + wipe. non-trivial = an option-file edit, an injected failure or a wipe happens AFTER at least '
        'one successful user assignment; distinct by sha1 of the concrete (init, ops) JSON.')
ASSUMPTIONS = [
    'observation of effective values needs a successful reconfigure (get_option messages); introspect shows stored values only, '
    'so the stored value of a currently inheriting (yielding) subproject option is not compared',
    'a `meson configure` that changes no value may leave the introspection files stale w.r.t. pending option-file edits '
    '(docs do not say when an edit becomes visible); both views are accepted, the next reconfigure is checked strictly',
    'after a toggle of `yield` the effective value of that subproject option may be its own or the parent\'s until the next --wipe',
    'integer min/max edits are treated like a changed choice list (old value kept when still in range, else new default)',
]

STRS = ['dflt', 'alpha', 'beta', 'x y', 'a=b', '100%', 'semi;colon', '', '#h', 'UPPER', 'true', '7']
COMBO_U = ['one', 'two', 'three', 'four', 'five']
ARR_U = ['x', 'y', 'z', 'w']
FREE_U = ['p', 'q', 'r', 'x']
RANGES = [(0, 10), (-5, 5), (1, 100), (0, 3), (0, 5), (-5, 10), (1, 10), (0, 100), (2, 10)]      # many pairs differ in ONE bound only
TYPES = ['string', 'boolean', 'integer', 'combo', 'array', 'feature']
YIELD_PAIR_NAMES = ('s1', 'y1', 'y2')      # names that exist on both sides with the same type
OBS_BUILTINS_TOP = ['werror', 'warning_level', 'default_library', 'buildtype', 'debug', 'optimization']
OBS_BUILTINS_SP = ['werror', 'warning_level', 'default_library']

X_D1 = 'remove an option that has a recorded -D value (known defect removed-option/recorded-D-blocks-reconfigure)'
X_D2 = 'setup --reconfigure -D on an option whose declaration has an unprocessed edit (known defect reconfigure-D/stale-declarations)'
X_D3 = 'choices/range edit on an option of a yielding pair (known defects choices-change/yielding-*)'
X_D4 = '(class lifted: repaired by fix e4865fa)'
X_D5 = '(class lifted: repaired by fix 74f3a99)'
X_D8 = ('meson configure -Dsp:opt=v where v equals the global builtin value / the value stored under an inheriting option '
        '(known defect configure/override-equal-to-hidden-value-not-persisted)')
X_D7 = 'failure injected after coredata was written (post-conf script) (known defect failed-reconfigure/postconf-failure-leaks-values)'
X_U = '-U of something that is not a per-subproject override (undefined by docs/property)'
X_UAMB = '-U on an option whose yield flag was toggled (undefined)'
X_WIPE = '--wipe while a recorded -D value is unknown/invalid for the current declarations (undefined: literal replay must fail)'
X_PAIR = 'structural edit (add/remove) of a member of a yielding pair (undefined when the pairing changes)'
X_STATE = 'op not applicable in this build-dir state'
SHRINK_RUNS = 40      # extra in-process history runs a shard may spend on shrinking its (at most 2) failure buckets


# ---------------------------------------------------------------------------
# source tree

def q(s: str) -> str:
    return "'" + s.replace('\\', '\\\\').replace("'", "\\'") + "'"


def render_value(v: T.Any) -> str:
    if isinstance(v, bool):
        return 'true' if v else 'false'
    if isinstance(v, int):
        return str(v)
    if isinstance(v, list):
        return '[' + ', '.join(q(x) for x in v) + ']'
    return q(v)


def render_options(decls: T.Dict[str, dict]) -> str:
    lines = []
    for name, d in decls.items():
        parts = [q(name), 'type: ' + q(d['type'])]
        if d.get('choices') is not None:
            parts.append('choices: ' + render_value(d['choices']))
        if d.get('min') is not None:
            parts.append(f'min: {d["min"]}')
        if d.get('max') is not None:
            parts.append(f'max: {d["max"]}')
        parts.append('value: ' + render_value(d['value']))
        if d.get('yield'):
            parts.append('yield: true')
        lines.append('option(' + ', '.join(parts) + ')\n')
    return ''.join(lines) or '# no options\n'


def msg_line(proj: str, name: str) -> str:
    return f"message('OPT|{proj}|{name}|@0@'.format(get_option({q(name)})))\n"


def render_tree(m: LifeModel, inject: T.Optional[dict]) -> T.Dict[str, str]:
    kind = inject['kind'] if inject else None
    where = inject.get('where') if inject else None
    defs = ', '.join(q(f'{k}={v}') for k, v in m.projdef.items())
    top = [f"project('top', default_options: [{defs}])\n"]
    if kind == 'error' and where == 'top_early':
        top.append("error('injected failure')\n")
    for n in m.file['top']:
        top.append(msg_line('top', n))
    for n in OBS_BUILTINS_TOP:
        top.append(msg_line('top', n))
    top.append("subproject('sp')\n")
    if kind == 'error' and where == 'top_late':
        top.append("error('injected failure')\n")
    if kind == 'postconf':
        top.append("meson.add_postconf_script('false')\n")
    sp = ["project('sp')\n"]
    for n in m.file[SP]:
        sp.append(msg_line(SP, n))
    for n in OBS_BUILTINS_SP:
        sp.append(msg_line(SP, n))
    if kind == 'error' and where == 'sp':
        sp.append("error('injected failure')\n")
    topopt = render_options(m.file['top'])
    spopt = render_options(m.file[SP])
    bad = "option('zz', type: 'string' value: 1)\n"
    if kind == 'syntax' and where == 'top':
        topopt += bad
    if kind == 'syntax' and where == 'sp':
        spopt += bad
    return {'meson.build': ''.join(top), 'meson.options': topopt,
            'subprojects/sp/meson.build': ''.join(sp), 'subprojects/sp/meson.options': spopt}


DELETE_EMPTY_OPTION_FILES = False     # set per history (case['delete_empty']): an option file left without options is deleted


def write_src(src: str, files: T.Dict[str, str], cache: T.Dict[str, str]) -> None:
    for rel, text in files.items():
        if DELETE_EMPTY_OPTION_FILES and rel.endswith('meson.options') and text == '# no options\n':
            # the project's last option was removed by deleting the file: "a removed one vanishes" all the same
            if cache.get(rel) is not None or os.path.exists(os.path.join(src, rel)):
                try:
                    os.unlink(os.path.join(src, rel))
                except FileNotFoundError:
                    pass
            cache[rel] = None       # type: ignore[assignment]
            continue
        if cache.get(rel) == text:
            continue
        path = os.path.join(src, rel)
        os.makedirs(os.path.dirname(path), exist_ok=True)
        with open(path, 'w', encoding='utf-8', newline='') as f:
            f.write(text)
        cache[rel] = text


# ---------------------------------------------------------------------------
# ops on the model

def apply_edit(m: LifeModel, op: dict) -> None:
    k = op['kind']
    if k == 'projdefault':
        if op.get('value') is None:
            m.projdef.pop(op['name'], None)
        else:
            m.projdef[op['name']] = op['value']
        return
    decls = m.file[op['proj']]
    if k == 'remove':
        decls.pop(op['name'], None)
    else:
        decls[op['name']] = copy.deepcopy(op['decl'])


def in_yield_pair(m: LifeModel, proj: str, name: str) -> bool:
    """the option is, by the current files or the processed declarations, one side of a yielding pair"""
    for decls in (m.file, m.applied or m.file):
        d = decls[SP].get(name)
        if d is not None and d.get('yield') and (proj == SP or name in decls['top']):
            return True
    return False


def recorded_valid(m: LifeModel) -> bool:
    flat = m.flat(m.file)
    for k, s in m.recorded.items():
        d = m.lookup(k, flat)
        if d is None:
            return False
        try:
            R.parse_value(d, s, k)
        except Invalid:
            return False
    return True


def op_D(op: dict) -> T.Dict[str, str]:
    D = {k: v for k, v in op.get('D', [])}
    inj = op.get('fail')
    if inj and inj['kind'] in ('badvalue', 'unknown'):
        D[inj['D'][0]] = inj['D'][1]
    return D


def excluded(m: LifeModel, op: dict) -> T.Optional[str]:
    """Regions excluded by construction from the random campaign (strict cases only)."""
    o = op['op']
    if o == 'edit':
        k = op['kind']
        if k == 'projdefault':
            return None
        proj, name = op['proj'], op['name']
        key = name if proj == 'top' else SP + ':' + name
        cur = m.file[proj].get(name)
        other = SP if proj == 'top' else 'top'
        if k == 'add':
            if cur is not None:
                return X_STATE
            if name in YIELD_PAIR_NAMES and name in m.file[other]:
                return X_PAIR         # the edit would create a pair
            return None
        if cur is None:
            return X_STATE
        if k == 'remove':
            if name in YIELD_PAIR_NAMES and name in m.file[other]:
                return X_PAIR         # the edit would break up a pair
            if key in m.recorded:
                return X_D1
            return None
        if op['decl']['type'] != cur['type'] and (name in YIELD_PAIR_NAMES or in_yield_pair(m, proj, name)):
            return X_D3           # (a pair whose two sides have different types is not a pair any more)
        if k == 'yield' and name not in YIELD_PAIR_NAMES:
            return X_PAIR
        if k == 'choices' and (name in YIELD_PAIR_NAMES or in_yield_pair(m, proj, name)):
            return X_D3
        return None
    if o == 'introspect':
        return None if m.state == 'configured' else X_STATE
    inj = op.get('fail')
    if inj and inj['kind'] == 'postconf':
        return X_D7
    if m.state == 'wiped':
        return None
    if m.state == 'fresh':
        return None if o == 'setup' else X_STATE
    # configured
    if o == 'setup':
        return X_STATE
    if o == 'wipe':
        return None if recorded_valid(m) else X_WIPE
    D = op_D(op)
    if o in ('configure', 'setupconf'):
        if not D and not op.get('U'):
            return X_STATE
        flat = m.flat(m.file)
        for k, sv in D.items():
            d = m.lookup(k, flat)
            if d is not None and k.startswith(SP + ':'):
                try:
                    if m.same_as_hidden(k, R.parse_value(d, sv, k)):
                        return X_D8
                except Invalid:
                    pass
        for k in op.get('U', []):
            if k in m.ambig:
                return X_UAMB
            if not m.is_override(k) and not m.is_noop_U(k):
                return X_U
    if o == 'reconfigure' and set(D) & m.pending_keys():
        return X_D2
    return None


def file_failure(op: dict) -> bool:
    inj = op.get('fail')
    if not inj:
        return False
    k = inj['kind']
    if op['op'] in ('configure', 'setupconf'):
        return k == 'syntax'         # `meson configure` does not run meson.build
    return k in ('error', 'syntax', 'postconf')


def predict(m: LifeModel, op: dict) -> T.Tuple[bool, str]:
    """Applies the command to the model.  Returns (expected success, reason when a failure is expected)."""
    o = op['op']
    D = op_D(op)
    if file_failure(op):
        if o == 'wipe':
            m.state = 'wiped'
        return False, op['fail']['kind']
    try:
        if o == 'setup':
            after_wipe = m.state == 'wiped'
            cmd = dict(m.recorded) if after_wipe else {}
            cmd.update(D)
            m.fresh(cmd, 'setup-after-failed-wipe' if after_wipe else 'setup')
            m.user_assignments += len(D)
        elif o == 'wipe':
            m.fresh(dict(m.recorded), 'wipe')
        elif o in ('configure', 'setupconf'):
            m.assign(D, op.get('U', []))
        elif o == 'reconfigure':
            m.assign(D, [])
        else:
            raise HarnessError(f'unknown op {o}')
    except Invalid as e:
        if o == 'wipe':
            raise Undefined('wipe with invalid recorded options')
        return False, e.why
    return True, ''


def command_args(op: dict, b: str, src: str) -> T.List[str]:
    o = op['op']
    dargs = [f'-D{k}={v}' for k, v in op_D(op).items()]
    if o == 'setup':
        return ['setup', '--backend=none', b, src] + dargs
    if o == 'setupconf':
        return ['setup', b, src] + dargs
    if o == 'reconfigure':
        return ['setup', '--reconfigure', b, src] + dargs
    if o == 'wipe':
        return ['setup', '--wipe', b, src]
    if o == 'configure':
        return ['configure', b] + dargs + [f'-U{k}' for k in op.get('U', [])]
    raise HarnessError(o)


# ---------------------------------------------------------------------------
# observation

def values_equal(a: LifeModel, b: LifeModel) -> bool:
    return a.val == b.val and a.inherit == b.inherit and a.bval == b.bval and a.over == b.over


def parse_intro(out: str) -> T.Optional[T.Dict[str, dict]]:
    try:
        data = json.loads(out)
    except ValueError:
        return None
    return {o['name']: o for o in data}


def tag(m: LifeModel, key: str) -> str:
    """bucket name component: category of the option + its last model events (for an inheriting
    subproject option the events of the parent it follows)"""
    if key in m.inherit:
        return f'{m.category(key)}/inherits:{m.last.get(key[len(SP) + 1:], "-")}'
    return f'{m.category(key)}/{m.last.get(key, "-")}'


def ws(want: T.Any, got: T.Any) -> str:
    if isinstance(want, str) and isinstance(got, str) and want != got and want.strip() == got.strip():
        return '/outer-whitespace-lost'
    return ''


def cmp_intro(view: T.Dict[str, dict], m: LifeModel, obs: str) -> T.Optional[T.Tuple[str, str]]:
    exp = m.intro_expect()
    seen_user = {n for n, o in view.items() if o.get('section') == 'user'}
    want_user = {n for n, e in exp.items() if not e.get('builtin')}
    for n in sorted(want_user - seen_user):
        return f'{obs}/option-missing/{tag(m, n)}', f'option {n} is declared but not listed by introspect'
    for n in sorted(seen_user - want_user):
        return f'{obs}/option-extra/{tag(m, n)}', \
            f'option {n} is listed by introspect with value {view[n].get("value")!r} but is not declared any more'
    for n, e in sorted(exp.items()):
        o = view.get(n)
        if o is None:
            return f'{obs}/option-missing/{tag(m, n)}', f'builtin {n} not listed by introspect'
        want = e['value']
        got = o.get('value')
        if want == R.ANY:
            pass
        elif isinstance(want, tuple) and want[0] == 'valid':
            if not R.is_valid(want[1], got):
                return f'{obs}/value-invalid-for-declaration/{tag(m, n)}', \
                    f'{n} = {got!r} is not a valid value for the current declaration {want[1]}'
        elif got != want or type(got) is not type(want):
            return f'{obs}/value/{tag(m, n)}{ws(want, got)}', f'{n}: expected {want!r}, introspect shows {got!r}'
        if not e.get('builtin'):
            t = e['type']
            if t != 'feature' and o.get('type') != t:
                return f'{obs}/decl-type/{tag(m, n)}', \
                    f'{n}: declared type {t}, introspect shows type {o.get("type")!r}'
            if t == 'combo' or (t == 'array' and e['choices'] is not None):
                if o.get('choices') != e['choices']:
                    return f'{obs}/decl-choices/{tag(m, n)}', \
                        f'{n}: declared choices {e["choices"]}, introspect shows {o.get("choices")!r}'
    return None


MSG_RE = re.compile(r'Message: OPT\|([^|]*)\|([^|]*)\|(.*)$')


def parse_messages(out: str) -> T.Dict[T.Tuple[str, str], str]:
    res = {}
    for line in out.splitlines():
        mo = MSG_RE.search(line)
        if mo:
            res[(mo.group(1), mo.group(2))] = mo.group(3)
    return res


def cmp_messages(out: str, m: LifeModel, obs: str) -> T.Optional[T.Tuple[str, str]]:
    got = parse_messages(out)
    want: T.List[T.Tuple[str, str, str]] = []
    for n in m.file['top']:
        want.append(('top', n, n))
    for n in OBS_BUILTINS_TOP:
        want.append(('top', n, n))
    for n in m.file[SP]:
        want.append((SP, n, SP + ':' + n))
    for n in OBS_BUILTINS_SP:
        want.append((SP, n, SP + ':' + n))
    for proj, n, key in want:
        if key in m.anyvalid:
            continue
        g = got.get((proj, n))
        cat = m.category(key)
        if g is None:
            return f'{obs}/message-missing/{cat}', f'no get_option() message for {key}'
        e = m.eff(key)
        if isinstance(e, tuple) and e[0] == 'oneof':
            if g not in [R.to_message(x) for x in e[1]]:
                return f'{obs}/value/{tag(m, key)}', \
                    f'get_option({n!r}) in {proj} printed {g!r}, admissible {[R.to_message(x) for x in e[1]]}'
        elif g != R.to_message(e):
            return f'{obs}/value/{tag(m, key)}{ws(R.to_message(e), g)}', \
                f'get_option({n!r}) in project {proj!r} printed {g!r}, expected {R.to_message(e)!r}'
    return None


def parse_augments(out: str) -> T.Optional[T.Dict[str, str]]:
    lines = out.splitlines()
    for i, l in enumerate(lines):
        if 'There are no option augments.' in l:
            return {}
        if 'Currently set option augments:' in l:
            res = {}
            for l2 in lines[i + 1:]:
                parts = l2.split()
                if len(parts) >= 2:
                    res[parts[0]] = parts[1]
                elif len(parts) == 1:
                    res[parts[0]] = ''
            return res
    return None


def cmp_augments(out: str, m: LifeModel) -> T.Optional[T.Tuple[str, str]]:
    got = parse_augments(out)
    if got is None:
        return 'augments/listing-missing', '`meson configure` printed no override (augment) section'
    want = {k: R.to_cmdline(v) for k, v in m.over.items()}
    if got != want:
        k = sorted(set(got) ^ set(want) or [k for k in want if got.get(k) != want[k]])[0]
        return f'augments/{m.last.get(k, "-")}', f'`meson configure` lists per-subproject overrides {got}, model has {want}'
    return None


def classify_failure(r: T.Any, m: LifeModel, op: dict, edits: T.List[str]) -> str:
    text = r.out + '\n' + r.err
    ctx = '+'.join(sorted({e.split('>')[-1] for e in edits})) or '-'
    if r.unhandled:
        exc = 'unknown'
        for line in reversed(text.splitlines()):
            mo = re.match(r'^([A-Za-z_][A-Za-z_0-9.]*(Error|Exception|Interrupt|Exit))\b', line.strip())
            if mo:
                exc = mo.group(1).split('.')[-1]
                break
        return f'crash/{op["op"]}/{exc}/{ctx}'
    line = ''
    for l in text.splitlines():
        if 'ERROR:' in l:
            line = l
            break
    key = None
    mo = re.search(r'"([^"]+)"', line)
    if mo:
        key = mo.group(1)
    if 'Unknown option' in line:
        cls = 'unknown-option'
    elif 'Postconf script' in line:
        cls = 'postconf'
    elif 'Problem encountered' in line:
        cls = 'error()'
    elif re.search(r'is not|not one of|must be|Value', line):
        cls = 'invalid-value'
    else:
        cls = 'other'
    if key is not None and (key in m.last):
        return f'fail/{op["op"]}/{cls}/{tag(m, key)}'
    return f'fail/{op["op"]}/{cls}/{ctx}'


# ---------------------------------------------------------------------------
# running one history

def short_op(op: dict) -> str:
    o = op['op']
    if o == 'edit':
        if op['kind'] == 'projdefault':
            return f'edit project default {op["name"]}={op.get("value")}'
        d = op.get('decl')
        extra = ''
        if d is not None:
            extra = ' ' + json.dumps({k: v for k, v in d.items()}, sort_keys=True)
        return f'edit {op["proj"]} {op["kind"]} {op["name"]}{extra}'
    s = {'setup': 'setup', 'setupconf': 'setup(on configured dir)', 'reconfigure': 'setup --reconfigure', 'wipe': 'setup --wipe',
         'configure': 'configure', 'introspect': 'introspect'}[o]
    for k, v in op.get('D', []):
        s += f' -D{k}={v}'
    for k in op.get('U', []):
        s += f' -U{k}'
    if op.get('fail'):
        inj = op['fail']
        s += ' [inject ' + inj['kind'] + (':' + inj['where'] if inj.get('where') else '') + \
            (f' -D{inj["D"][0]}={inj["D"][1]}' if inj.get('D') else '') + ']'
    return s


class Outcome:
    def __init__(self) -> None:
        self.failure: T.Optional[Failure] = None
        self.flags: T.Set[str] = set()
        self.nontrivial = False
        self.excluded: T.List[str] = []
        self.commands = 0
        self.lag = 0
        self.trace: T.List[str] = []


def run_history(case: dict, runner: T.Callable[..., T.Any], root: str) -> Outcome:
    """Executes the concrete history with `runner` (run_inproc / run_sub) and judges every step."""
    res = Outcome()
    strict = case.get('strict', True)
    src = os.path.join(root, 'src')
    b = os.path.join(root, 'b')
    shutil.rmtree(root, ignore_errors=True)
    os.makedirs(src)
    m = LifeModel(case['init'])
    cache: T.Dict[str, str] = {}
    global DELETE_EMPTY_OPTION_FILES
    DELETE_EMPTY_OPTION_FILES = bool(case.get('delete_empty'))
    write_src(src, render_tree(m, None), cache)
    trace = res.trace

    def fail(sig: str, msg: str, r: T.Any = None) -> Outcome:
        tail = ''
        if r is not None:
            lines = [l[:300] for l in (r.out + '\n' + r.err).splitlines() if l.strip() and 'OPT|' not in l]
            tail = '\nlast command: rc=' + str(r.rc) + '\n  ' + '\n  '.join(lines[-8:])
        res.failure = Failure(sig, case, msg + '\nhistory so far:\n  ' + '\n  '.join(trace) + tail)
        return res

    def run(args: T.List[str]) -> T.Any:
        res.commands += 1
        return runner(args, cwd=root)

    def observe_intro(mm: LifeModel, obs: str) -> T.Tuple[T.Optional[T.Dict[str, dict]], T.Optional[T.Tuple[str, str]], T.Any]:
        r = run(['introspect', '--buildoptions', b])
        view = parse_intro(r.out) if r.rc == 0 else None
        if view is None:
            return None, (f'{obs}/introspect-failed', f'`meson introspect --buildoptions` failed (rc={r.rc})'), r
        return view, cmp_intro(view, mm, obs), r

    def adopt_anyvalid(view: T.Dict[str, dict]) -> None:
        for k in list(m.anyvalid):
            if k in view:
                m.val[k] = view[k].get('value')
                m.anyvalid.discard(k)

    assigned = False
    for op in case['ops']:
        o = op['op']
        if strict:
            why = excluded(m, op)
            if why is not None:
                if why != X_STATE:
                    res.excluded.append(why)
                continue
        trace.append(short_op(op))
        if o == 'edit':
            apply_edit(m, op)
            write_src(src, render_tree(m, None), cache)
            res.flags.add('edit:' + op['kind'])
            if assigned:
                res.nontrivial = True
            continue
        if o == 'introspect':
            view, bad, r = observe_intro(m, 'intro')
            if bad:
                return fail(bad[0], bad[1], r)
            r = run(['configure', b])
            if r.rc != 0 or r.unhandled:
                return fail('configure-print-failed', 'read-only `meson configure` failed', r)
            if not m.pending_edits():
                bad = cmp_augments(r.out, m)
                if bad:
                    return fail(bad[0], bad[1], r)
            res.flags.add('introspect')
            continue
        # -- mutating command ---------------------------------------------------
        inj = op.get('fail')
        pre = m.clone()
        had_pending = pre.pending_edits()
        if inj and inj['kind'] in ('error', 'syntax', 'postconf'):
            write_src(src, render_tree(m, inj), cache)
        r = run(command_args(op, b, src))
        if inj and inj['kind'] in ('error', 'syntax', 'postconf'):
            write_src(src, render_tree(m, None), cache)
        before_last = dict(m.last)
        try:
            ok, why = predict(m, op)
        except Undefined as e:
            raise HarnessError(f'history reaches a region the model leaves undefined: {e}; ops={trace}')
        edits = [v for k, v in m.last.items() if before_last.get(k) != v and
                 v.split('>')[-1] not in ('user-set', 'U-dropped') and not v.split('>')[-1].startswith(('setup', 'wipe('))]
        res.flags.add(o)
        if op.get('U'):
            res.flags.add('-U')
        if inj:
            res.flags.add('fail:' + inj['kind'])
        if assigned and (inj or o == 'wipe'):
            res.nontrivial = True
        if r.unhandled:
            return fail(classify_failure(r, m, op, edits), f'`{short_op(op)}` died with an unhandled exception', r)
        if ok and r.rc != 0:
            return fail(classify_failure(r, m, op, edits),
                        f'`{short_op(op)}` failed (rc={r.rc}) but the command line is valid for the current declarations', r)
        if not ok and r.rc == 0:
            return fail(f'unexpected-success/{o}/{why}', f'`{short_op(op)}` succeeded although it must be rejected ({why})', r)
        if not ok:
            if m.state == 'configured':
                view, bad, r2 = observe_intro(m, f'after-failed-{o}[{why}]')
                if bad:
                    return fail(bad[0], 'a failed command changed the persisted state: ' + bad[1], r2)
            continue
        # success
        if op_D(op) or op.get('U'):
            assigned = True
        view, bad, r2 = observe_intro(m, 'intro')
        if bad and o in ('configure', 'setupconf') and had_pending:
            a0 = pre.clone()
            a0.apply_edits()
            if values_equal(a0, m) and view is not None:
                alt = pre.clone()
                alt.recorded = dict(m.recorded)
                alt.user_assignments = m.user_assignments
                if cmp_intro(view, alt, 'intro') is None:
                    m = alt
                    bad = None
                    res.lag += 1
        if bad:
            return fail(bad[0], f'after `{short_op(op)}`: ' + bad[1], r2)
        if view is not None:
            adopt_anyvalid(view)
        if o in ('setup', 'reconfigure', 'wipe'):
            bad = cmp_messages(r.out, m, 'getopt')
            if bad:
                return fail(bad[0], f'during `{short_op(op)}`: ' + bad[1], r)
    # -- epilogue: observe effective values and the recorded command line ---------------
    if m.state == 'configured':
        trace.append('(epilogue) setup --reconfigure')
        r = run(['setup', '--reconfigure', b, src])
        before_last = dict(m.last)
        m.assign({}, [])
        edits = [v for k, v in m.last.items() if before_last.get(k) != v]
        if r.unhandled or r.rc != 0:
            return fail(classify_failure(r, m, {'op': 'reconfigure'}, edits), 'the final plain `setup --reconfigure` failed', r)
        view, bad, r2 = observe_intro(m, 'intro')
        if bad:
            return fail(bad[0], 'after the final reconfigure: ' + bad[1], r2)
        if view is not None:
            adopt_anyvalid(view)
        bad = cmp_messages(r.out, m, 'getopt')
        if bad:
            return fail(bad[0], 'during the final reconfigure: ' + bad[1], r)
        r = run(['configure', b])
        if r.rc != 0 or r.unhandled:
            return fail('configure-print-failed', 'read-only `meson configure` failed', r)
        bad = cmp_augments(r.out, m)
        if bad:
            return fail(bad[0], bad[1], r)
        if recorded_valid(m):
            trace.append('(epilogue) setup --wipe')
            r = run(['setup', '--wipe', b, src])
            m.fresh(dict(m.recorded), 'wipe')
            if r.unhandled or r.rc != 0:
                return fail(classify_failure(r, m, {'op': 'wipe'}, []), 'the final `setup --wipe` failed', r)
            view, bad, r2 = observe_intro(m, 'intro-after-wipe')
            if bad:
                return fail(bad[0], 'after the final wipe (recorded command lines + current defaults): ' + bad[1], r2)
            bad = cmp_messages(r.out, m, 'getopt-after-wipe')
            if bad:
                return fail(bad[0], 'during the final wipe (recorded command lines + current defaults): ' + bad[1], r)
        elif strict:
            res.excluded.append(X_WIPE)
    return res


# ---------------------------------------------------------------------------
# generator

def _strategies() -> T.Any:
    from hypothesis import strategies as st

    def value_for(draw: T.Any, d: dict) -> T.Any:
        t = d['type']
        if t == 'string':
            return draw(st.sampled_from(STRS))
        if t == 'boolean':
            return draw(st.booleans())
        if t == 'integer':
            lo, hi = d['min'], d['max']
            return draw(st.sampled_from(sorted({lo, hi, (lo + hi) // 2, min(hi, lo + 1)})))
        if t == 'combo':
            return draw(st.sampled_from(d['choices']))
        if t == 'feature':
            return draw(st.sampled_from(R.FEATURE_STATES))
        ch = d.get('choices') or FREE_U
        return draw(st.lists(st.sampled_from(ch), unique=True, max_size=3))

    def bad_value_for(draw: T.Any, d: dict) -> T.Optional[str]:
        t = d['type']
        if t == 'boolean':
            return 'maybe'
        if t == 'integer':
            return draw(st.sampled_from([str(d['max'] + 5), str(d['min'] - 1), 'abc']))
        if t == 'combo':
            return 'nochoice'
        if t == 'feature':
            return 'yes'
        if t == 'array' and d.get('choices') is not None:
            return d['choices'][0] + ',nochoice'
        return None

    def decl_of(draw: T.Any, t: str) -> dict:
        d: dict = {'type': t}
        if t == 'integer':
            d['min'], d['max'] = draw(st.sampled_from(RANGES))
        elif t == 'combo':
            d['choices'] = draw(st.lists(st.sampled_from(COMBO_U), unique=True, min_size=2, max_size=4))
        elif t == 'array':
            if draw(st.booleans()):
                d['choices'] = draw(st.lists(st.sampled_from(ARR_U), unique=True, min_size=2, max_size=4))
        d['value'] = value_for(draw, d)
        return d

    def chance(draw: T.Any, num: int, den: int) -> bool:
        """True with probability ~num/den; the simplest (shrunk / most often generated) outcome is False"""
        return draw(st.sampled_from([False] * (den - num) + [True] * num))

    def init_decls(draw: T.Any) -> dict:
        top: T.Dict[str, dict] = {}
        sp: T.Dict[str, dict] = {}
        sp['s1'] = decl_of(draw, 'string')
        if not chance(draw, 1, 4):
            top['s1'] = decl_of(draw, 'string')
            if chance(draw, 1, 4):
                sp['s1']['yield'] = True
        for n, t in (('b1', 'boolean'), ('i1', 'integer'), ('c1', 'combo'), ('a1', 'array'), ('f1', 'feature')):
            if not chance(draw, 1, 4):
                top[n] = decl_of(draw, t)
        for n, t in (('c1', 'combo'), ('i2', 'integer'), ('a2', 'array'), ('b2', 'boolean'), ('f2', 'feature')):
            if not chance(draw, 1, 4):
                sp[n] = decl_of(draw, t)
        if not chance(draw, 1, 5):
            top['y1'] = decl_of(draw, 'string')
            sp['y1'] = decl_of(draw, 'string')
            sp['y1']['yield'] = not chance(draw, 1, 5)
        if not chance(draw, 1, 3):
            top['y2'] = decl_of(draw, 'combo')
            sp['y2'] = decl_of(draw, 'combo')
            sp['y2']['yield'] = not chance(draw, 1, 5)
        projdef = {}
        if draw(st.booleans()):
            projdef['warning_level'] = draw(st.sampled_from(['0', '2', '3']))
        return {'top': top, SP: sp, 'projdef': projdef}

    def gen_D(draw: T.Any, m: LifeModel, lo: int, hi: int) -> T.List[T.List[str]]:
        flat = m.flat(m.file)
        keys = list(flat) + list(flat) + list(BUILTIN) + [SP + ':' + n for n in PER_SUBPROJECT]
        ks = draw(st.lists(st.sampled_from(keys), unique=True, min_size=lo, max_size=hi))
        if m.state == 'configured' and m.over and hi > 0 and chance(draw, 1, 3):
            k0 = draw(st.sampled_from(sorted(m.over)))       # come back to an override that already exists
            if k0 not in ks:
                ks.append(k0)
        elif m.state in ('fresh', 'configured') and hi > 0 and chance(draw, 1, 6):
            k0 = SP + ':' + draw(st.sampled_from(sorted(PER_SUBPROJECT)))   # put a per-subproject override in place
            if k0 not in ks:
                ks.append(k0)
        out = []
        for k in ks:
            d = m.lookup(k, flat)
            assert d is not None
            if k == 'buildtype':
                v: T.Any = draw(st.sampled_from(['plain', 'debug', 'debugoptimized', 'release', 'minsize']))
                if m.state == 'configured' and chance(draw, 1, 3):
                    v = m.eff('buildtype')       # stated again, unchanged: expands to nothing
            else:
                v = value_for(draw, d)
                if m.state == 'configured' and chance(draw, 1, 4):
                    # re-state the value the option has right now: "the last one the user gave it" must be recorded
                    # even though nothing changes at this moment
                    try:
                        v = m.eff(k)
                    except Exception:
                        pass
                elif k.startswith(SP + ':') and k in m.over and chance(draw, 1, 2):
                    # an existing per-subproject override is set back to exactly the value the global option has: still a
                    # change of the override (not the "equal to the hidden value with no override" class X_D8)
                    try:
                        v = m.eff(k[len(SP) + 1:])
                    except Exception:
                        pass
            out.append([k, R.to_cmdline(v)])
        return out

    def gen_fail(draw: T.Any, m: LifeModel, o: str) -> T.Optional[dict]:
        if not chance(draw, 1, 5):
            return None
        kinds = {'setup': ['error', 'syntax', 'badvalue', 'unknown'], 'reconfigure': ['error', 'syntax', 'badvalue', 'unknown'],
                 'configure': ['syntax', 'badvalue', 'unknown', 'badvalue'], 'setupconf': ['syntax', 'badvalue', 'unknown'],
                 'wipe': ['error', 'syntax']}[o]
        k = draw(st.sampled_from(kinds))
        if k == 'error':
            return {'kind': k, 'where': draw(st.sampled_from(['top_early', 'top_late', 'sp']))}
        if k == 'syntax':
            return {'kind': k, 'where': draw(st.sampled_from(['top', SP]))}
        if k == 'unknown':
            return {'kind': k, 'D': [draw(st.sampled_from(['nosuch', SP + ':nosuch', 'zz9'])), '1']}
        flat = m.flat(m.file)
        cands = [(kk, d) for kk, d in list(flat.items()) + [('werror', BUILTIN['werror']), ('warning_level', BUILTIN['warning_level']),
                                                             (SP + ':werror', BUILTIN['werror'])]
                 if d['type'] in ('boolean', 'integer', 'combo', 'feature') or (d['type'] == 'array' and d.get('choices') is not None)]
        kk, d = draw(st.sampled_from(cands))
        bv = bad_value_for(draw, d)
        assert bv is not None
        return {'kind': 'badvalue', 'D': [kk, bv]}

    def gen_edit(draw: T.Any, m: LifeModel) -> dict:
        kind = draw(st.sampled_from(['add', 'remove', 'default', 'default', 'choices', 'choices', 'choices', 'yield', 'projdefault']))
        if kind == 'projdefault':
            return {'op': 'edit', 'kind': kind, 'name': 'warning_level', 'value': draw(st.sampled_from([None, '0', '2', '3']))}
        proj = draw(st.sampled_from(['top', SP]))
        decls = m.file[proj]
        if kind == 'add':
            name = draw(st.sampled_from(['n1', 'n2', 'n3'] if proj == 'top' else ['m1', 'm2', 'm3']))
            return {'op': 'edit', 'proj': proj, 'kind': kind, 'name': name, 'decl': decl_of(draw, draw(st.sampled_from(TYPES)))}
        names = list(decls)
        if kind == 'yield':
            proj = SP
            names = [n for n in m.file[SP] if n in YIELD_PAIR_NAMES and n in m.file['top'] and m.file['top'][n]['type'] == m.file[SP][n]['type']]
        elif kind == 'choices':
            names = [n for n in names if decls[n]['type'] in ('combo', 'integer') or (decls[n]['type'] == 'array' and decls[n].get('choices') is not None)]
        if not names:
            return {'op': 'edit', 'kind': 'projdefault', 'name': 'warning_level', 'value': draw(st.sampled_from([None, '0', '2', '3']))}
        name = draw(st.sampled_from(names))
        cur = m.file[proj][name]
        if kind == 'remove':
            return {'op': 'edit', 'proj': proj, 'kind': kind, 'name': name, 'decl': None}
        d = copy.deepcopy(cur)
        if kind == 'yield':
            d['yield'] = not d.get('yield')
        elif kind == 'default':
            d['value'] = value_for(draw, d)
        else:
            if d['type'] == 'integer':
                d['min'], d['max'] = draw(st.sampled_from([r for r in RANGES if r != (cur['min'], cur['max'])]))
                d['value'] = min(max(d['value'], d['min']), d['max'])
            else:
                uni = COMBO_U if d['type'] == 'combo' else ARR_U
                d['choices'] = draw(st.lists(st.sampled_from(uni), unique=True, min_size=2, max_size=4))
                if d['type'] == 'combo':
                    if d['value'] not in d['choices'] or draw(st.booleans()):
                        d['value'] = draw(st.sampled_from(d['choices']))
                else:
                    d['value'] = [x for x in d['value'] if x in d['choices']]
        return {'op': 'edit', 'proj': proj, 'kind': kind, 'name': name, 'decl': d}

    def gen_U(draw: T.Any, m: LifeModel) -> T.List[str]:
        cands = sorted(k for k in (list(m.over) + [SP + ':' + n for n in m.file[SP]]) if m.is_override(k))
        if not cands or not chance(draw, 2, 3):
            # sometimes aim at a non-override too: it is counted as excluded
            if chance(draw, 1, 5) and m.file[SP]:
                # (-U of an option that has nothing to drop: a no-op when the superproject has no option of that name,
                # otherwise undefined and counted as excluded; what matters is that the -D next to it still takes effect)
                return [SP + ':' + draw(st.sampled_from(list(m.file[SP])))]
            return []
        return draw(st.lists(st.sampled_from(cands), unique=True, min_size=1, max_size=2))

    def gen_op(draw: T.Any, m: LifeModel) -> dict:
        if m.state == 'fresh':
            if chance(draw, 1, 10):
                return gen_edit(draw, m)
            op: dict = {'op': 'setup', 'D': gen_D(draw, m, 0, 4)}
            f = gen_fail(draw, m, 'setup')
            if f:
                op['fail'] = f
            return op
        if m.state == 'wiped':
            if chance(draw, 1, 6):
                return {'op': 'setup', 'D': gen_D(draw, m, 0, 2)}       # excluded (D5), counted
            op = {'op': 'wipe'}
            f = gen_fail(draw, m, 'wipe') if draw(st.booleans()) else None
            if f:
                op['fail'] = f
            return op
        o = draw(st.sampled_from(['configure'] * 6 + ['reconfigure'] * 4 + ['wipe'] * 2 + ['edit'] * 6 + ['introspect', 'setupconf']))
        if o == 'edit':
            return gen_edit(draw, m)
        if o == 'introspect':
            return {'op': o}
        op = {'op': o}
        if o == 'configure':
            U = gen_U(draw, m)
            D = [kv for kv in gen_D(draw, m, 0 if U else 1, 3) if kv[0] not in U]
            op['D'] = D
            if U:
                op['U'] = U
        elif o == 'setupconf':
            op['D'] = gen_D(draw, m, 1, 2)
        elif o == 'reconfigure':
            op['D'] = gen_D(draw, m, 0, 2)
        f = gen_fail(draw, m, o)
        if f:
            if f.get('D'):
                op['D'] = [kv for kv in op.get('D', []) if kv[0] != f['D'][0]]
                if f['D'][0] in op.get('U', []):
                    f = None
            if f:
                op['fail'] = f
        return op

    @st.composite
    def histories(draw: T.Any) -> dict:
        init = init_decls(draw)
        m = LifeModel(init)
        n = draw(st.integers(3, 10))
        ops = []
        def push(op: dict) -> None:
            ops.append(op)
            if excluded(m, op) is not None:
                return
            if op['op'] == 'edit':
                apply_edit(m, op)
            elif op['op'] != 'introspect':
                try:
                    predict(m, op)
                except Undefined:
                    ops.pop()

        for _ in range(n):
            push(gen_op(draw, m))
        if m.state == 'configured' and chance(draw, 1, 4):
            # scripted tail: the user re-states the current value of an option, the project later changes that option's
            # default, then the directory is wiped: the value the user gave must survive (it has to be in the recorded
            # command line although the configure changed nothing)
            names = sorted(n_ for n_ in m.file['top'] if n_ not in YIELD_PAIR_NAMES and m.file['top'][n_]['type'] in ('string', 'combo', 'integer', 'boolean'))
            if names:
                k = draw(st.sampled_from(names))
                try:
                    cur = m.eff(k)
                except Exception:
                    cur = None
                if cur is not None:
                    push({'op': 'configure', 'D': [[k, R.to_cmdline(cur)]]})
                    d = copy.deepcopy(m.file['top'][k])
                    for _try in range(4):
                        nv = value_for(draw, d)
                        if nv != cur:
                            break
                    d['value'] = nv
                    push({'op': 'edit', 'proj': 'top', 'kind': 'default', 'name': k, 'decl': d})
                    push({'op': 'wipe'})
        if m.state == 'configured' and chance(draw, 1, 5):
            # scripted tail 2: a per-subproject override of a built-in option is put in place and later set back, on its
            # own, to exactly the value the global option has - still "the last value the user gave it"
            n_ = draw(st.sampled_from(sorted(PER_SUBPROJECT)))
            k = SP + ':' + n_
            d = m.lookup(k, m.flat(m.file))
            try:
                gv = m.eff(n_)
            except Exception:
                gv = None
            if d is not None and gv is not None:
                other = None
                for _try in range(6):
                    cand = value_for(draw, d)
                    if cand != gv:
                        other = cand
                        break
                if other is not None:
                    if m.over.get(k) in (None, gv):
                        push({'op': 'configure', 'D': [[k, R.to_cmdline(other)]]})
                    push({'op': 'configure', 'D': [[k, R.to_cmdline(gv)]]})
                    push({'op': 'introspect'})
        if m.state == 'configured' and chance(draw, 1, 6):
            # scripted tail 3: EVERY option of one project's option file is removed in one edit (the file is left without
            # any option() call); at the next command all of them must vanish
            proj = draw(st.sampled_from([SP, SP, 'top']))
            other_ = SP if proj == 'top' else 'top'
            if any(n_ in m.file[other_] for n_ in m.file[proj] if n_ in YIELD_PAIR_NAMES):
                proj = other_ if not any(n_ in m.file[proj] for n_ in m.file[other_] if n_ in YIELD_PAIR_NAMES) else proj
            for n_ in sorted(m.file[proj]):
                push({'op': 'edit', 'proj': proj, 'kind': 'remove', 'name': n_, 'decl': None})
            push({'op': draw(st.sampled_from(['configure', 'reconfigure'])), 'D': [['warning_level', draw(st.sampled_from(['0', '2', '3']))]]})
            push({'op': 'introspect'})
        if m.state == 'configured' and chance(draw, 1, 4):
            # scripted tail 4: debug / optimization customised by the user, then the CURRENT buildtype is stated again (together
            # with an option that really changes, on a configure and on a reconfigure), then another buildtype, then --wipe
            bt = m.eff('buildtype')
            if bt in R.BUILDTYPE_TABLE:
                dbg, opt = R.BUILDTYPE_TABLE[bt]
                myopt = draw(st.sampled_from([o for o in ['1', '2', '3', 's', 'g'] if o != opt]))
                push({'op': 'configure', 'D': [['optimization', myopt], ['debug', 'false' if dbg else 'true']]})
                push({'op': 'configure', 'D': [['buildtype', bt], ['werror', 'false' if m.eff('werror') else 'true']]})
                push({'op': 'introspect'})
                push({'op': 'reconfigure', 'D': [['buildtype', bt]]})
                push({'op': 'introspect'})
                if chance(draw, 1, 2):
                    other = draw(st.sampled_from([b for b in ['plain', 'debugoptimized', 'release', 'minsize', 'debug'] if b != bt]))
                    push({'op': 'configure', 'D': [['buildtype', other]]})
                    push({'op': 'configure', 'D': [['optimization', draw(st.sampled_from(['1', 'g']))]]})
                push({'op': 'wipe'})
                push({'op': 'introspect'})
        return {'init': init, 'ops': ops, 'strict': True, 'delete_empty': draw(st.booleans())}

    return histories()


# ---------------------------------------------------------------------------
# dedicated probes for confirmed defects of the pinned tree (strict=False: nothing is skipped)

_S = {'type': 'string', 'value': 'dflt'}
_C = {'type': 'combo', 'choices': ['one', 'two', 'three'], 'value': 'two'}


def _init(top: dict, sp: dict) -> dict:
    return {'top': copy.deepcopy(top), SP: copy.deepcopy(sp), 'projdef': {}}


PROBES: T.List[T.Tuple[str, dict]] = [
    # D1: option the user had set is removed from the option file -> every later reconfigure fails "Unknown options"
    ('removed-option-recorded-D', {'strict': False, 'init': _init({'s1': _S, 'c1': _C}, {'s1': _S}), 'ops': [
        {'op': 'setup', 'D': [['c1', 'three']]},
        {'op': 'edit', 'proj': 'top', 'kind': 'remove', 'name': 'c1', 'decl': None},
        {'op': 'reconfigure', 'D': []}]}),
    # D2: setup --reconfigure -D<new option> is validated against the declarations of the previous run
    ('reconfigure-D-new-option', {'strict': False, 'init': _init({'s1': _S}, {'s1': _S}), 'ops': [
        {'op': 'setup', 'D': []},
        {'op': 'edit', 'proj': 'top', 'kind': 'add', 'name': 'n1', 'decl': {'type': 'string', 'value': 'newd'}},
        {'op': 'reconfigure', 'D': [['n1', 'given']]}]}),
    # D3a: choices of a yielding subproject option change -> reconfigure crashes (AttributeError)
    ('choices-change-yielding-child', {'strict': False, 'init': _init({'s1': _S, 'y2': _C}, {'s1': _S, 'y2': dict(_C, value='one', **{'yield': True})}), 'ops': [
        {'op': 'setup', 'D': []},
        {'op': 'edit', 'proj': SP, 'kind': 'choices', 'name': 'y2',
         'decl': {'type': 'combo', 'choices': ['one', 'two', 'three', 'four'], 'value': 'one', 'yield': True}},
        {'op': 'reconfigure', 'D': []}]}),
    # D3b: choices of the parent of a yielding option change -> the child keeps following the replaced, stale object
    ('choices-change-yielding-parent', {'strict': False, 'init': _init({'s1': _S, 'y2': _C}, {'s1': _S, 'y2': dict(_C, value='one', **{'yield': True})}), 'ops': [
        {'op': 'setup', 'D': []},
        {'op': 'edit', 'proj': 'top', 'kind': 'choices', 'name': 'y2',
         'decl': {'type': 'combo', 'choices': ['one', 'two', 'three', 'four'], 'value': 'two'}},
        {'op': 'reconfigure', 'D': []},
        {'op': 'configure', 'D': [['y2', 'four']]}]}),
    # D4: the type of an option changes -> the new default is validated against the OLD option object
    ('type-change', {'strict': False, 'init': _init({'s1': _S, 'b1': {'type': 'boolean', 'value': False}}, {'s1': _S}), 'ops': [
        {'op': 'setup', 'D': []},
        {'op': 'edit', 'proj': 'top', 'kind': 'type', 'name': 'b1', 'decl': {'type': 'string', 'value': 'strdef'}},
        {'op': 'reconfigure', 'D': []}]}),
    # D5: failed --wipe, then a plain setup: recorded options are applied but dropped from the record -> next wipe loses them
    ('failed-wipe-then-setup', {'strict': False, 'init': _init({'s1': _S}, {'s1': _S}), 'ops': [
        {'op': 'setup', 'D': [['s1', 'mine']]},
        {'op': 'wipe', 'fail': {'kind': 'error', 'where': 'top_late'}},
        {'op': 'setup', 'D': []}]}),
    # D6: outer whitespace of a string value is lost when the recorded command line is replayed
    ('wipe-outer-whitespace', {'strict': False, 'init': _init({'s1': _S}, {'s1': _S}), 'ops': [
        {'op': 'setup', 'D': [['s1', ' lead']]}]}),
    # D8a: `meson configure -Dsp:werror=false` while the global value is false: nothing is saved, the override is lost
    ('configure-override-equal-global', {'strict': False, 'init': _init({'s1': _S}, {'s1': _S}), 'ops': [
        {'op': 'setup', 'D': []},
        {'op': 'configure', 'D': [['sp:werror', 'false']]},
        {'op': 'introspect'}]}),
    # D8b: `meson configure -Dsp:y1=<its own default>` on a yielding option: nothing is saved, it keeps yielding
    ('configure-yielding-equal-stored', {'strict': False, 'init': _init({'s1': _S, 'y1': {'type': 'string', 'value': 'topy'}},
                                                                       {'s1': _S, 'y1': {'type': 'string', 'value': 'spy', 'yield': True}}), 'ops': [
        {'op': 'setup', 'D': []},
        {'op': 'configure', 'D': [['sp:y1', 'spy']]}]}),
    # D7: reconfigure fails in a post-conf script (after coredata/cmd_line.txt/intro files were written)
    ('failed-reconfigure-postconf', {'strict': False, 'init': _init({'s1': _S, 'c1': _C}, {'s1': _S}), 'ops': [
        {'op': 'setup', 'D': []},
        {'op': 'reconfigure', 'D': [['c1', 'three']], 'fail': {'kind': 'postconf'}}]}),
]


# ---------------------------------------------------------------------------
# harness entry points

def selftest(ctx: Ctx) -> None:
    bad = R.selftest()
    if bad:
        raise HarnessError('reference model self-test failed: ' + '; '.join(bad[:5]))


def _sub_runner(args: T.List[str], cwd: str) -> T.Any:
    from harness import mesondrv
    return mesondrv.run_sub(args, cwd=cwd)


def _inproc_runner(args: T.List[str], cwd: str) -> T.Any:
    from harness import mesondrv
    return mesondrv.run_inproc(args, cwd=cwd)


def _classes(out: Outcome) -> str:
    fl = out.flags
    tags = []
    if any(f.startswith('edit:') for f in fl):
        tags.append('edit')
    if any(f.startswith('fail:') for f in fl):
        tags.append('fail')
    if 'wipe' in fl:
        tags.append('wipe')
    if '-U' in fl:
        tags.append('U')
    if 'reconfigure' in fl:
        tags.append('reconf')
    return '+'.join(tags) or 'plain'


def _campaign_shard(shard: T.Tuple[int, int, str], ev: Evidence, fails: T.List[Failure]) -> None:
    seed, n, scratch = shard
    root = os.path.join(scratch, f'w{seed}')
    first_seen: T.Dict[str, Failure] = {}
    cache: T.Dict[bytes, T.Optional[Failure]] = {}
    counter = [0]

    def check(case: dict) -> T.Optional[Failure]:
        key = fp(case)
        if key in cache:          # the shrink pass of campaign() regenerates the same cases first
            return cache[key]
        counter[0] += 1
        if counter[0] > n + SHRINK_RUNS:
            return None       # shrink budget of this shard is spent: the shrinker sees "no failure" and stops
        out = run_history(case, _inproc_runner, os.path.join(root, 'c'))
        cache[key] = out.failure
        if counter[0] <= n:
            ev.case(case, nontrivial=out.nontrivial, cls=_classes(out), sample=list(out.trace))
            for f in sorted(out.flags):
                ev.event('op:' + f)
            for w in out.excluded:
                ev.exclude(w)
            if out.lag:
                ev.event('configure-lag (stale intro accepted)', out.lag)
            ev.extra['commands'] = ev.extra.get('commands', 0) + out.commands
        f = out.failure
        if f is not None and f.sig not in first_seen:
            first_seen[f.sig] = f
        return f

    got: T.List[Failure] = []
    try:
        campaign(_strategies(), check, n, seed, got, max_buckets=2)
        # everything so far was judged in-process: a bucket is reported only if its shrunk representative (or, failing
        # that, the first case seen for it) fails the same way with one fresh subprocess per command
        for f in got:
            confirmed = None
            for cand in (f, first_seen.get(f.sig)):
                if cand is None or (confirmed is None and cand is not f and cand.case == f.case):
                    continue
                out2 = run_history(cand.case, _sub_runner, os.path.join(root, 's'))
                if out2.failure is not None:
                    confirmed = out2.failure
                    break
            if confirmed is not None:
                fails.append(confirmed)
            else:
                ev.inproc_only += 1
    finally:
        shutil.rmtree(root, ignore_errors=True)


def _probe_worker(arg: T.Tuple[str, dict, str]) -> T.Optional[dict]:
    name, case, scratch = arg
    root = os.path.join(scratch, 'probe-' + name)
    try:
        out = run_history(case, _sub_runner, root)
    finally:
        shutil.rmtree(root, ignore_errors=True)
    return out.failure.to_json() if out.failure is not None else None


_REPLAYED: T.Dict[bytes, T.Optional[Failure]] = {}


def _run_fixed_cases(ctx: Ctx, cases: T.List[T.Tuple[str, dict]]) -> None:
    """Fixed (probe / regression) histories: one fresh subprocess per command, cases in parallel, each case once per run."""
    import multiprocessing
    from harness.core import NCPU
    todo = []
    seen = set()
    for name, case in cases:
        k = fp(case)
        if k not in _REPLAYED and k not in seen:
            seen.add(k)
            todo.append((name, case))
    if not todo:
        return
    args = [(f'{i}-{name}', case, ctx.scratch) for i, (name, case) in enumerate(todo)]
    if len(args) == 1:
        results = [_probe_worker(args[0])]
    else:
        with multiprocessing.get_context('fork').Pool(min(NCPU, len(args))) as pool:
            results = pool.map(_probe_worker, args, chunksize=1)
    for (name, case), res in zip(todo, results):
        f = Failure.from_json(res) if res is not None else None
        _REPLAYED[fp(case)] = f
        ctx.ev.case(case, nontrivial=True, cls='probe:' + name, sample=[short_op(o) for o in case['ops']])
        ctx.ev.event(('probe-still-failing:' if f is not None else 'probe-holds-now:') + name)


def _regress_cases() -> T.List[T.Tuple[str, dict]]:
    import glob
    from harness.core import VERIF
    out = []
    for path in sorted(glob.glob(os.path.join(VERIF, 'replays', 'regress', 'C08-*.json'))):
        try:
            with open(path, encoding='utf-8') as fh:
                out.append((os.path.basename(path)[4:-5], json.load(fh)['case']))
        except (OSError, ValueError, KeyError):
            pass
    return out


# ---------------------------------------------------------------------------
# I/O faults while the configuration is being saved ("a configure or reconfigure that fails leaves every persisted value
# exactly as it was"): the failure is not a rejected value or an error() in the build file but the save itself failing

def _io_fault_worker(arg: T.Tuple[str, str, int, str]) -> T.Optional[dict]:
    """one (command, fault point): returns a Failure as dict, {'ok': label} or None"""
    from checks import c09_crash as K
    cmd, root, k, pyc = arg
    case = {'variant': 'nolang', 'pre_dir': None, 'history': [['setup', {'o': 'h1', 'n': '7', 'sp:so': 's1'}]],
            'x': [cmd, {'o': 'changed', 'n': '42'}]}
    site = K.Site(case, root, pyc)
    try:
        site.run_history(inproc=False)
        log = os.path.join(root, 'count.log')
        if k == 0:
            r = K.sub(site.xargs(), pyc, root, K.shim_env(site.B, log))
            if r.rc != 0:
                raise HarnessError(f'I/O fault family: the unfaulted command fails: {r!r}')
            return {'mlist': K.read_mlist(log)}
        r = K.sub(site.xargs(), pyc, root, K.shim_env(site.B, log, k, 'oserror'))
        got = K.read_mlist(log)
        op, path, _ = got[-1] if got else ('?', '?', 0)
        shown = ' '.join(K.argv_for(cmd, case['x'][1], 'B', 'S'))
        lst = K.sub(['configure', site.B], pyc, root)
        vals, ri = site.introspect(False)
        fcase = {'io_fault': True, 'cmd': cmd, 'k': k, 'op': op, 'path': path}
        what = f'`meson {shown}` with mutation {k} (`{op} {path}`) failing with ENOSPC ended with exit status {r.rc}; afterwards '
        if lst.rc != 0 or lst.unhandled:
            return Failure(f'io-fault/{cmd}:configuration-unreadable', fcase,
                           what + f'`meson configure B` fails (exit {lst.rc}): the persisted configuration is gone or unreadable\n'
                           + lst.text[-900:]).to_json()
        def listed(name: str) -> T.Optional[str]:
            for line in lst.out.splitlines():
                parts = line.split()
                if len(parts) >= 2 and parts[0] == name:
                    return parts[1]
            return None
        seen = {n: listed(n) for n in ('o', 'n')}
        pre, post = {'o': 'h1', 'n': '7'}, {'o': 'changed', 'n': '42'}
        if r.rc != 0:
            if seen != pre:
                return Failure(f'io-fault/{cmd}:failed-command-changed-values', fcase,
                               what + f'`meson configure B` lists {seen}; a command that fails must leave every persisted value as it was ({pre})').to_json()
            return {'ok': 'failed-cleanly'}
        if seen not in (pre, post):
            return Failure(f'io-fault/{cmd}:mixed-values', fcase, what + f'`meson configure B` lists {seen} (neither {pre} nor {post})').to_json()
        return {'ok': 'survived'}
    finally:
        shutil.rmtree(root, ignore_errors=True)


def io_fault_family(ctx: Ctx) -> None:
    import multiprocessing
    from harness.core import NCPU
    pyc = os.path.join(ctx.scratch, 'pyc')
    jobs = []
    for cmd in ('configure', 'reconfigure'):
        r0 = _io_fault_worker((cmd, os.path.join(ctx.scratch, f'iof-{cmd}-0'), 0, pyc))
        assert r0 is not None
        M = r0['mlist']
        # the save of the persistent configuration: every mutation of meson-private/coredata.dat, its temporary and its backup
        pts = [i + 1 for i, (op, path, _) in enumerate(M) if path.startswith('meson-private/coredata.dat')]
        if not pts:
            raise HarnessError(f'I/O fault family: `meson {cmd}` performs no mutation of meson-private/coredata.dat*: {M[:8]}')
        jobs += [(cmd, os.path.join(ctx.scratch, f'iof-{cmd}-{k}'), k, pyc) for k in pts]
    mp = multiprocessing.get_context('fork')
    with mp.Pool(min(NCPU, len(jobs))) as pool:
        results = pool.map(_io_fault_worker, jobs, chunksize=1)
    for job, res in zip(jobs, results):
        if res is None:
            continue
        if 'sig' in res:
            ctx.fail(Failure.from_json(res))
            ctx.ev.case({'io_fault': job[0], 'k': job[2]}, nontrivial=True, cls=f'io-fault/{job[0]}')
        else:
            ctx.ev.case({'io_fault': job[0], 'k': job[2]}, nontrivial=True, cls=f'io-fault/{job[0]}:{res["ok"]}',
                        sample={'command': job[0], 'fault_at_mutation': job[2], 'result': res['ok']})


# ---------------------------------------------------------------------------
# values that first came from a machine file, were then changed by the user, and must survive a reconfigure
# (Ninja backend through the fake ninja, so that a backend option exists as well)

def machine_file_scenario(ctx: Ctx) -> None:
    from harness import mesondrv as M
    root = os.path.join(ctx.scratch, 'mfile')
    src, bld = os.path.join(root, 'src'), os.path.join(root, 'bld')
    M.write_tree(src, {'meson.build': "project('mf', default_options: ['warning_level=1'])\nmessage('o=' + get_option('o'))\n",
                       'meson.options': "option('o', type: 'string', value: 'dflt')\noption('n', type: 'integer', value: 3, min: 0, max: 100)\n"})
    M.write_tree(root, {'native.ini': "[built-in options]\nbackend_max_links = 2\nwarning_level = '2'\nwerror = true\n\n[project options]\no = 'fromnative'\nn = 7\n"})

    def values() -> T.Dict[str, T.Any]:
        r = M.run_sub(['introspect', '--buildoptions', bld], cwd=root)
        if r.rc != 0:
            raise HarnessError(f'machine file scenario: introspect failed: {r!r}')
        want = ('backend_max_links', 'warning_level', 'werror', 'o', 'n')
        return {e['name']: e['value'] for e in json.loads(r.out) if e['name'] in want}

    steps = [
        (['setup', '--native-file', os.path.join(root, 'native.ini'), bld, src],
         {'backend_max_links': 2, 'warning_level': '2', 'werror': True, 'o': 'fromnative', 'n': 7}, 'the machine file beats default_options / declared defaults'),
        (['configure', bld, '-Dbackend_max_links=8', '-Dwarning_level=3', '-Do=cfg'],
         {'backend_max_links': 8, 'warning_level': '3', 'werror': True, 'o': 'cfg', 'n': 7}, 'the user changed three of them'),
        (['setup', '--reconfigure', bld, src],
         {'backend_max_links': 8, 'warning_level': '3', 'werror': True, 'o': 'cfg', 'n': 7}, 'a reconfigure keeps the last value the user gave (and the machine-file value of the untouched ones)'),
        (['configure', bld, '-Dn=42', '-Dwerror=false'],
         {'backend_max_links': 8, 'warning_level': '3', 'werror': False, 'o': 'cfg', 'n': 42}, 'the user changed the other two'),
        (['setup', '--reconfigure', bld, src, '-Do=again'],
         {'backend_max_links': 8, 'warning_level': '3', 'werror': False, 'o': 'again', 'n': 42}, 'reconfigure with one more -D'),
    ]
    hist = []
    for argv, want, why in steps:
        shown = ' '.join('B' if a == bld else 'S' if a == src else os.path.basename(a) if a.endswith('native.ini') else a for a in argv)
        hist.append(shown)
        r = M.run_sub(argv, cwd=root)
        case = {'machine_file_scenario': True, 'upto': len(hist)}
        ctx.ev.case(case, nontrivial=True, cls='machine-file-history', sample={'history': list(hist), 'expect': want})
        if r.rc != 0:
            ctx.fail(Failure('machine-file-history/command-fails', case, f'`meson {shown}` failed (exit {r.rc}) after {hist[:-1]}:\n{r.text[-1200:]}'))
            break
        got = values()
        bad = {k: (got.get(k), v) for k, v in want.items() if got.get(k) != v}
        if bad:
            ctx.fail(Failure('machine-file-history/value:' + '+'.join(sorted(bad)), case,
                             f'after {hist}: ' + ', '.join(f'{k} = {g!r} (expected {w!r})' for k, (g, w) in sorted(bad.items())) + f' - {why}'))
            break
    shutil.rmtree(root, ignore_errors=True)


def run(ctx: Ctx) -> None:
    machine_file_scenario(ctx)
    io_fault_family(ctx)
    _run_fixed_cases(ctx, PROBES)
    for _, case in PROBES:
        ctx.fail(_REPLAYED.get(fp(case)))
    total = ctx.n(640, 16000)
    nshards = 16
    per = max(1, total // nshards)
    pmap(ctx, _campaign_shard, [(s, per, ctx.scratch) for s in shard_seeds(ctx, nshards)])


def replay(ctx: Ctx, case: T.Any, doc: dict) -> T.Optional[Failure]:
    if isinstance(case, dict) and case.get('machine_file_scenario'):
        c2 = Ctx(ctx.prop, ctx.tier, ctx.seed)
        machine_file_scenario(c2)
        return next(iter(c2.failures.values()), None)
    if isinstance(case, dict) and case.get('io_fault'):
        res = _io_fault_worker((case['cmd'], os.path.join(ctx.scratch, 'iof-replay'), case['k'], os.path.join(ctx.scratch, 'pyc')))
        return Failure.from_json(res) if res and 'sig' in res else None
    if fp(case) not in _REPLAYED:
        # in a normal run the first call also runs every other saved regression case (in parallel), later calls
        # hit the cache; `./vcheck C08 --replay FILE` runs just that file
        import sys
        others = [] if '--replay' in sys.argv else _regress_cases()
        _run_fixed_cases(ctx, [(doc.get('signature', 'replay')[:40].replace('/', '_'), case)] + others)
    return _REPLAYED[fp(case)]
