"""C13 - Compiler argument lists honour the append/override/dedup contract.

Objects under test: CLikeCompilerArgs bound to the really detected gcc (GnuCCompiler + GNU ld) and the base
CompilerArgs bound to a stub.  Oracle: harness/refarglist.py (eager list written from the property sentences, the
class docstring and the fixtures pinned in unittests/internaltests.py).  Three parts:

  1. exhaustive enumeration of all op sequences up to a bound over a small alphabet (+=, direct append, read,
     copy-and-continue-on-copy, copy-and-continue-on-original);
  2. Hypothesis campaign over JSON op lists with the full operation set, several objects (copies) alive at once;
  3. end-to-end slice: generated projects with the same -D/-I given at global/project/option/dependency/target level,
     `meson setup` with the fake ninja, ARGS of the compile edge in build.ninja.
"""
from __future__ import annotations

import collections
import itertools
import json
import os
import random
import shlex
import shutil
import subprocess
import typing as T

from harness.core import Ctx, Evidence, Failure, HarnessError, pmap, campaign, shard_seeds, make_scratch, fp
from harness import refarglist as R

LEVEL = 'exploration'
RULE = ('(1) exhaustive: every sequence of exactly d operations, d=1..D, over {+= batch of 1..2 args, append_direct arg, read, '
        'copy-then-continue-on-copy, copy-then-continue-on-original} for an alphabet with one or two arguments per kind '
        '(a7 = -Ia -Ib -DA -isystemS -lx -O2 and a stand-alone -D; quick: D=3 from 3 initial lists (empty, de-duplicated, raw duplicates) '
        'plus D=4 over 5 arguments; thorough: D=4 over a7, D=5 over 4 arguments, D=3 over 11 arguments); '
        '(2) JSON op lists of 1..30 steps over 33 arguments (a 2..8 argument sub-alphabet per case so that duplicates collide), '
        'once as a Hypothesis strategy (collect-then-shrink) and once from a seeded random.Random generator (ddmin shrink) for volume: '
        '+=, append, extend (list/generator/other CompilerArgs), +, reflected +, copy, copy-constructor, append_direct, extend_direct, '
        'extend_preserving_lflags, insert, []=, del, remove, pop and the reads list/iter/[]/slice/==/in/count/index/to_native(copy=True) '
        'on all live objects (every copy stays alive and keeps being used), to_native() as terminal step; the real list is compared with '
        'the eager reference at every read and at the end for every object, so copies are checked for independence; '
        '(3) generated meson projects (same -D/-U/-I at project, global, c_args option, dependency and target level), ARGS of the compile '
        'edge in build.ninja against the twin project with every occurrence renamed apart. '
        'non-trivial = some object received >=2 contract writes without an intervening read (lazy path) and one of them '
        'added an override-type argument that was already present (or twice in the batch); e2e: an override-type argument '
        'given at >=2 levels.  distinct by sha1 of the normalised op list (enumerations are duplicate-free by construction).')
ASSUMPTIONS = [
    'the initial list given to the constructor is taken verbatim (fixture "no de-dup on initialization"); arguments put in by '
    'append_direct/extend_direct/insert/[]= are raw and stay until an identical argument is added through +=/append/extend',
    'insert/[]=/del/remove/pop/index/count/in/slicing follow the collections.abc.MutableSequence contract on the eager list',
    'extend_preserving_lflags is only exercised with batches whose non -l/-L arguments all precede the -l/-L ones and contain no -I',
    'gcc on this machine is GnuCCompiler with a GNU-like linker and /usr/include is one of its default include directories',
    'e2e: the order in which the levels are added is taken from the run itself (renamed-apart twin project), the chain '
    'project < global < c_args option < target from the comments in backends.py:1056-1067 and ninjabackend.py:3184-3186',
]

# The confirmed finding native/nocopy-read-then-read:group-flags-doubled is re-checked by replays/regress/C13-nocopy-read-then-read.json
# (probe_nocopy_read below); in the generated campaigns that class is excluded by normalise().

# ---------------------------------------------------------------------------
# alphabets

A_PREPEND = ['-Ia', '-Ib', '-I/usr/include', '-La', '-Lb', '-Ivendor/sq.a', '-Ldir/libx.so']   # (the last two LOOK like library files)
A_APPEND = ['-DA', '-DA=1', '-DB', '-UA', '-isystemS', '-isystem/usr/include', '-isystem=/usr/include', '-DEXT=.so', '-DP=plug/libp.so.3', '-isystemsdk/core.a']
A_ONCE = ['-lfoo', '-lbar', '-lm', '-lc', '/abs/libz.so', '/abs/libq.a', 'libq.a', '/abs/libv.so.1.2', '-pthread', '-Wl,-rpath,x']
A_PLAIN = ['-O2', '-Wall', '-g', 'main.c', '/usr/include', '/abs/dir']
A_STANDALONE = ['-D', '-U', '-isystem', '-l']
A_UNDEFINED = ['-I', '-L']
ALPHA_CLIKE = A_PREPEND + A_APPEND + A_ONCE + A_PLAIN + A_STANDALONE + A_UNDEFINED
ALPHA_BASE_OK = ['-O2', '-Wall', '-g', 'main.c', '/abs/dir', '--flag', '/abs/libz.so', '/abs/libq.a', 'libq.a', '/abs/libv.so.1.2']
ALPHA_BASE = ALPHA_BASE_OK + ['-Ia', '-DA', '-lfoo']     # the last three are dropped and counted

CONTRACT_W = ('iadd', 'append', 'extend', 'extend_iter', 'iadd_ca')
NEW_SLOT = ('add', 'radd', 'add_ca', 'ctor', 'copy')
DIRECT_W = ('append_direct', 'extend_direct', 'preserving')
RAW_W = ('insert', 'setitem', 'delitem', 'remove', 'pop')
READS = ('list', 'iter', 'getitem', 'slice', 'eq', 'eq_ca', 'contains', 'count', 'index', 'native')
EXCLUDED_OPS = {'len': 'len() (counts the pending queues; not part of the property, no caller uses it)',
                'reversed': 'reversed()/reverse() (Sequence mixins built on len(); no caller uses them)',
                'reverse': 'reversed()/reverse() (Sequence mixins built on len(); no caller uses them)'}

# ---------------------------------------------------------------------------
# the real objects


class _StubCompiler:
    """What the base CompilerArgs needs from its compiler."""

    def unix_args_to_native(self, args: T.List[str]) -> T.List[str]:
        return list(args)

    def __repr__(self) -> str:
        return 'StubCompiler'


_CC: T.Dict[str, T.Any] = {}


def gcc_default_dirs() -> T.List[str]:
    """Independent of meson: ask gcc itself."""
    p = subprocess.run(['gcc', '-xc', '-E', '-v', '-'], stdin=subprocess.DEVNULL, stdout=subprocess.PIPE,
                       stderr=subprocess.PIPE, env=dict(os.environ, LC_ALL='C'))
    out = p.stderr.decode('utf-8', 'replace')
    dirs: T.List[str] = []
    on = False
    for line in out.splitlines():
        if line.startswith('#include <...> search starts here') or line.startswith('#include "..." search starts here'):
            on = True
            continue
        if line.startswith('End of search list'):
            break
        if on and line.startswith(' '):
            dirs.append(os.path.realpath(line.strip()))
    return dirs


def get_env() -> T.Dict[str, T.Any]:
    """One real compiler object per process (inherited by forked workers)."""
    if _CC and _CC.get('pid_root') is not None:
        return _CC
    import argparse
    from mesonbuild.environment import Environment
    from mesonbuild.compilers.detect import detect_c_compiler
    from mesonbuild.mesonlib import MachineChoice
    from mesonbuild.arglist import CompilerArgs
    from mesonbuild.compilers.mixins.clike import CLikeCompilerArgs
    for k in ('CC', 'CFLAGS', 'LDFLAGS', 'CPPFLAGS', 'CC_LD'):
        os.environ.pop(k, None)
    d = make_scratch('C13-env')
    opts = argparse.Namespace(native_file=[], cross_file=None, wrap_mode=None, prefix='', cmd_line_options={})
    env = Environment(d, d, opts)
    cc = detect_c_compiler(env, MachineChoice.HOST)
    probe = cc.compiler_args()
    if not isinstance(probe, CLikeCompilerArgs):
        raise HarnessError(f'detected C compiler {cc!r} does not hand out CLikeCompilerArgs')
    if cc.get_id() != 'gcc':
        raise HarnessError(f'expected gcc, detected {cc.get_id()}')
    dd = gcc_default_dirs()
    if '/usr/include' not in dd:
        raise HarnessError(f'/usr/include is not a default include dir of gcc here: {dd}')
    if cc.unix_args_to_native(['-Ia', '-lfoo']) != ['-Ia', '-lfoo']:
        raise HarnessError('gcc unix_args_to_native is not the identity')
    cc.get_default_include_dirs()      # warm the cache before forking
    _CC.update(cc=cc, stub=_StubCompiler(), CompilerArgs=CompilerArgs, default_dirs=dd, pid_root=os.getpid(), env=env)
    return _CC


def make_real(cls: str, init: T.Optional[T.Iterable[str]]) -> T.Any:
    e = get_env()
    if cls == 'clike':
        return e['cc'].compiler_args(init)
    return e['CompilerArgs'](e['stub'], init)


def ref_native(cls: str, lst: T.Sequence[str]) -> T.List[str]:
    if cls == 'clike':
        return R.native_gnu(lst, get_env()['default_dirs'])
    return list(lst)


# ---------------------------------------------------------------------------
# normalisation: drop (and count) what the property does not define

def normalise(case: dict) -> T.Tuple[dict, T.List[str]]:
    cls = case.get('cls', 'clike')
    excl: T.List[str] = []
    kind = R.kind_clike if cls == 'clike' else R.kind_base

    def ok_arg(a: str) -> bool:
        if cls == 'clike':
            if kind(a) == R.UNDEFINED:
                excl.append('stand-alone -I/-L (placement of the option/value pair is not fixed by the property)')
                return False
            return True
        if a.startswith('-') and a.startswith(('-I', '-L', '-D', '-U', '-isystem', '-l', '-pthread', '-Wl,')):
            excl.append('base CompilerArgs given a C-like argument (-I/-D/-l... semantics live in the C-like tables)')
            return False
        return True

    def fb(b: T.Iterable[str]) -> T.List[str]:
        return [a for a in b if ok_arg(a)]

    init = fb(case.get('init', []))
    ops: T.List[list] = []
    for op in case['ops']:
        name = op[0]
        if name in EXCLUDED_OPS:
            excl.append(EXCLUDED_OPS[name])
            continue
        if name in ('iadd', 'extend', 'extend_iter', 'add', 'radd', 'extend_direct'):
            ops.append([name, op[1], fb(op[2])])
        elif name == 'preserving':
            b = fb(op[2])
            lf = [R.RefArgs.is_lflag(a) for a in b]
            first_l = lf.index(True) if True in lf else len(b)
            if any(not x for x in lf[first_l:]) or any(kind(a) == R.PREPEND for a, x in zip(b, lf) if not x):
                excl.append('extend_preserving_lflags batch with non-lflags after/between lflags or with -I (relative order not documented)')
                continue
            ops.append([name, op[1], b])
        elif name in ('append', 'append_direct', 'remove', 'contains', 'count', 'index'):
            if ok_arg(op[2]):
                ops.append(list(op))
        elif name in ('insert', 'setitem'):
            if ok_arg(op[3]):
                ops.append(list(op))
        else:
            ops.append(list(op))
    # to_native(copy=False) is only kept as the last use of its object
    nslots = 1
    slots_of: T.List[T.List[int]] = []
    for op in ops:
        used = [op[1] % nslots]
        if op[0] in ('iadd_ca', 'add_ca', 'eq_ca'):
            used.append(op[2] % nslots)
        slots_of.append(used)
        if op[0] in NEW_SLOT:
            nslots += 1
    keep: T.List[list] = []
    for i, op in enumerate(ops):
        if op[0] == 'native_final':
            t = slots_of[i][0]
            if any(t in slots_of[j] for j in range(i + 1, len(ops))):
                excl.append('to_native(copy=False) followed by further use of the same object (mutating read; see finding native/nocopy-read-then-read)')
                continue
        keep.append(op)
    return {'cls': cls, 'init': init, 'ops': keep}, excl


# ---------------------------------------------------------------------------
# running one case

class _Slot:
    __slots__ = ('real', 'ref', 'pending', 'dup', 'dead', 'unread', 'plain')

    def __init__(self, real: T.Any, ref: R.RefArgs, pending: int = 0, dup: bool = False):
        self.real = real
        self.ref = ref
        self.pending = pending     # contract writes since the last flush-forcing operation
        self.dup = dup             # one of them re-added an override-type argument
        self.dead = False
        self.unread = False        # written to since the last read of the whole list
        self.plain: T.Optional[T.List[str]] = None   # non-dedupable arguments in the order supplied (None: raw edits happened)


def _diff_sig(real: T.List[str], ref: T.List[str], kind: T.Callable[[str], str]) -> str:
    cr, cf = collections.Counter(real), collections.Counter(ref)
    lost, extra = cf - cr, cr - cf
    if lost and not extra:
        return 'lost:' + kind(sorted(lost)[0])
    if extra and not lost:
        return 'extra:' + kind(sorted(extra)[0])
    if lost and extra:
        return 'lost+extra:' + kind(sorted(lost)[0])
    for a, b in zip(real, ref):
        if a != b:
            return 'order:' + kind(b)
    return 'order'


class _Mismatch(Exception):
    def __init__(self, sig: str, msg: str):
        super().__init__(msg)
        self.sig = sig
        self.msg = msg


def _execute(case: dict, eager: bool = False, info: T.Optional[dict] = None, read_after: int = -1) -> None:
    """Run a normalised case on the real objects and the reference in lock-step; raise _Mismatch."""
    cls = case['cls']
    kind = R.kind_clike if cls == 'clike' else R.kind_base
    slots = [_Slot(make_real(cls, list(case['init'])), R.RefArgs(kind, case['init']))]
    supplied = set(case['init'])

    def pl(xs: T.Iterable[str]) -> T.List[str]:
        return [a for a in xs if kind(a) == R.PLAIN]
    slots[0].plain = pl(case['init'])
    nontrivial = False
    lazy_reads = 0

    def compare(s: _Slot, where: str) -> None:
        nonlocal nontrivial, lazy_reads
        got = list(s.real)
        if s.pending >= 2:
            lazy_reads += 1
            if s.dup:
                nontrivial = True
        s.pending, s.dup, s.unread = 0, False, False
        if got != s.ref.l:
            raise _Mismatch('list/' + _diff_sig(got, s.ref.l, kind),
                            f'{where}: list(args) = {got}\n expected (eager meaning) {s.ref.l}')
        inv = [a for a in got if a not in supplied]
        if inv:
            raise _Mismatch('list/invented', f'{where}: {inv} were never supplied')
        # last sentence of the property, checked on its own (independent of RefArgs): arguments that cannot be
        # de-duplicated keep their relative order and multiplicity.  real == reference at this point, so a
        # failure here means the reference model contradicts the property.
        if s.plain is not None and pl(got) != s.plain:
            raise HarnessError(f'reference model breaks "non-dedupable arguments keep order and multiplicity": {where}: '
                               f'{pl(got)} vs supplied {s.plain} in {case}')

    def note_write(s: _Slot, batch: T.Sequence[str], before: T.Sequence[str]) -> None:
        s.pending += 1
        seen: T.Set[str] = set()
        for a in batch:
            if kind(a) in (R.PREPEND, R.APPEND) and (a in before or a in seen):
                s.dup = True
            seen.add(a)

    def flushed(s: _Slot) -> None:
        # an operation that reads the merged list internally; what it saw is checked by the next compare
        nonlocal nontrivial
        if s.pending >= 2 and s.dup:
            nontrivial = True
        s.pending, s.dup = 0, False

    def mirrored(where: str, fr: T.Callable[[], T.Any], ff: T.Callable[[], T.Any]) -> T.Tuple[T.Any, T.Any]:
        """list-contract operations: same result or same exception class (IndexError/ValueError)"""
        try:
            want: T.Any = ('ok', ff())
        except (IndexError, ValueError) as e:
            want = ('exc', type(e).__name__)
        try:
            got: T.Any = ('ok', fr())
        except (IndexError, ValueError) as e:
            got = ('exc', type(e).__name__)
        if got != want:
            raise _Mismatch('read/' + json.loads(where.split(' ', 2)[2])[0], f'{where}: got {got}, list semantics give {want}')
        return got, want

    for n, op in enumerate(case['ops']):
        name = op[0]
        s = slots[op[1] % len(slots)]
        where = f'step {n} {json.dumps(op)}'
        if s.dead:
            raise HarnessError('normalise() let an operation through on an object after to_native(copy=False)')
        try:
            if name in ('iadd', 'extend', 'extend_iter'):
                b = list(op[2])
                supplied.update(b)
                note_write(s, b, s.ref.l)
                if name == 'iadd':
                    r = s.real
                    r += b
                    if r is not s.real:
                        raise _Mismatch('iadd/new-object', f'{where}: += returned a different object')
                elif name == 'extend':
                    s.real.extend(b)
                else:
                    s.real.extend(x for x in b)
                s.ref.add(b)
            elif name == 'append':
                supplied.add(op[2])
                note_write(s, [op[2]], s.ref.l)
                s.real.append(op[2])
                s.ref.add([op[2]])
            elif name == 'iadd_ca':
                o = slots[op[2] % len(slots)]
                b = list(o.ref.l)
                note_write(s, b, s.ref.l)
                if o is not s:
                    flushed(o)
                r = s.real
                r += o.real
                s.ref.add(b)
            elif name in ('add', 'radd', 'add_ca'):
                if name == 'add_ca':
                    o = slots[op[2] % len(slots)]
                    b = list(o.ref.l)
                    if o is not s:
                        flushed(o)
                    new = s.real + o.real
                else:
                    b = list(op[2])
                    supplied.update(b)
                    new = (s.real + b) if name == 'add' else (b + s.real)
                if new is s.real or not isinstance(new, type(s.real)):
                    raise _Mismatch(f'{name}/result-object', f'{where}: result is {type(new).__name__}, same object: {new is s.real}')
                if name == 'radd':
                    nr = R.RefArgs(kind, b)
                    nr.add(s.ref.l)
                    ns = _Slot(new, nr)
                    note_write(ns, s.ref.l, b)
                else:
                    nr = s.ref.clone()
                    ns = _Slot(new, nr)
                    note_write(ns, b, nr.l)
                    nr.add(b)
                flushed(s)
                slots.append(ns)
            elif name == 'copy':
                new = s.real.copy()
                if new is s.real or type(new) is not type(s.real):
                    raise _Mismatch('copy/result-object', f'{where}: copy() returned {type(new).__name__}, same object: {new is s.real}')
                flushed(s)
                slots.append(_Slot(new, s.ref.clone()))
            elif name == 'ctor':
                new = make_real(cls, s.real)
                flushed(s)
                slots.append(_Slot(new, s.ref.clone()))
            elif name == 'append_direct':
                supplied.add(op[2])
                flushed(s)
                s.real.append_direct(op[2])
                s.ref.direct(op[2])
            elif name == 'extend_direct':
                supplied.update(op[2])
                flushed(s)
                s.real.extend_direct(list(op[2]))
                s.ref.extend_direct(op[2])
            elif name == 'preserving':
                supplied.update(op[2])
                note_write(s, [a for a in op[2] if not R.RefArgs.is_lflag(a)], s.ref.l)
                flushed(s)
                s.real.extend_preserving_lflags(list(op[2]))
                s.ref.preserving(op[2])
            elif name == 'insert':
                supplied.add(op[3])
                flushed(s)
                s.real.insert(op[2], op[3])
                s.ref.l.insert(op[2], op[3])
            elif name == 'setitem':
                supplied.add(op[3])
                flushed(s)

                def fr(s: _Slot = s, op: list = op) -> None:
                    s.real[op[2]] = op[3]

                def ff(s: _Slot = s, op: list = op) -> None:
                    s.ref.l[op[2]] = op[3]
                mirrored(where, fr, ff)
            elif name == 'delitem':
                flushed(s)

                def fr(s: _Slot = s, op: list = op) -> None:
                    del s.real[op[2]]

                def ff(s: _Slot = s, op: list = op) -> None:
                    del s.ref.l[op[2]]
                mirrored(where, fr, ff)
            elif name == 'remove':
                flushed(s)
                mirrored(where, lambda: s.real.remove(op[2]), lambda: s.ref.l.remove(op[2]))
            elif name == 'pop':
                flushed(s)
                mirrored(where, lambda: s.real.pop(op[2]), lambda: s.ref.l.pop(op[2]))
            elif name == 'list':
                compare(s, where)
            elif name == 'iter':
                got = [a for a in s.real]
                flushed(s)
                if got != s.ref.l:
                    raise _Mismatch('list/' + _diff_sig(got, s.ref.l, kind), f'{where}: iteration gave {got}\n expected {s.ref.l}')
            elif name == 'getitem':
                flushed(s)
                mirrored(where, lambda: s.real[op[2]], lambda: s.ref.l[op[2]])
            elif name == 'slice':
                flushed(s)
                mirrored(where, lambda: list(s.real[op[2]:op[3]]), lambda: s.ref.l[op[2]:op[3]])
            elif name == 'eq':
                flushed(s)
                same = s.real == list(s.ref.l)
                other = s.real == (list(s.ref.l) + ['-DIFFERENT'])
                if same is not True or other is not False:
                    raise _Mismatch('read/eq', f'{where}: args == {s.ref.l} gave {same}; args == that + [-DIFFERENT] gave {other}')
            elif name == 'eq_ca':
                o = slots[op[2] % len(slots)]
                if o is not s and o.unread:
                    if info is not None:
                        info.setdefault('excluded', []).append('== against another CompilerArgs that has unread additions (no caller; see report, observation O2)')
                    continue
                else:
                    flushed(s)
                    got_eq = s.real == o.real
                    want_eq = s.ref.l == o.ref.l
                    if got_eq is not want_eq:
                        raise _Mismatch('read/eq_ca', f'{where}: {s.ref.l} == {o.ref.l} gave {got_eq}')
            elif name == 'contains':
                flushed(s)
                mirrored(where, lambda: op[2] in s.real, lambda: op[2] in s.ref.l)
            elif name == 'count':
                flushed(s)
                mirrored(where, lambda: s.real.count(op[2]), lambda: s.ref.l.count(op[2]))
            elif name == 'index':
                flushed(s)
                mirrored(where, lambda: s.real.index(op[2]), lambda: s.ref.l.index(op[2]))
            elif name in ('native', 'native_final'):
                flushed(s)
                got = s.real.to_native(copy=True) if name == 'native' else s.real.to_native()
                want = ref_native(cls, s.ref.l)
                if got != want:
                    raise _Mismatch('native/' + _diff_sig(got, want, kind),
                                    f'{where}: to_native gave {got}\n expected {want} for the list {s.ref.l}')
                if name == 'native_final':
                    s.dead = True
            else:
                raise HarnessError(f'unknown op {name}')
        except _Mismatch:
            raise
        except HarnessError:
            raise
        except Exception as e:   # the list class itself must not raise on these operations
            raise _Mismatch(f'raises/{type(e).__name__}:{name}', f'{where}: raised {e!r}')
        if name in ('iadd', 'extend', 'extend_iter', 'extend_direct', 'preserving'):
            if s.plain is not None:
                s.plain = s.plain + pl(op[2])
        elif name in ('append', 'append_direct'):
            if s.plain is not None:
                s.plain = s.plain + pl([op[2]])
        elif name in ('iadd_ca', 'add_ca'):
            o = slots[op[2] % (len(slots) - (1 if name == 'add_ca' else 0))]
            both = None if (s.plain is None or o.plain is None) else s.plain + o.plain
            if name == 'iadd_ca':
                s.plain = both
            else:
                slots[-1].plain = both
        elif name == 'add':
            slots[-1].plain = None if s.plain is None else s.plain + pl(op[2])
        elif name == 'radd':
            slots[-1].plain = None if s.plain is None else pl(op[2]) + s.plain
        elif name in ('copy', 'ctor'):
            slots[-1].plain = None if s.plain is None else list(s.plain)
        elif name in RAW_W:
            s.plain = None
        if name in CONTRACT_W or name in DIRECT_W or name in RAW_W:
            s.unread = True
        elif name in READS:
            s.unread = False
        elif name in ('add', 'radd', 'add_ca'):
            slots[-1].unread = True
        if eager or n == read_after:
            for x in slots:
                if not x.dead:
                    compare(x, where + ' (then an extra read of every object)')
    for i, s in enumerate(slots):
        if not s.dead:
            compare(s, f'final read of object {i}')
    if info is not None:
        info['nontrivial'] = nontrivial
        info['lazy_reads'] = lazy_reads
        info['objects'] = len(slots)


def run_case(case: dict, info: T.Optional[dict] = None) -> T.Optional[Failure]:
    """case must be normalised.  The signature is taken at the earliest point where the divergence can be observed:
    with a read after every step if that also fails, otherwise (lazy-only defect) with one extra read placed after the
    earliest step that makes it visible."""
    if case.get('cls', 'clike') == 'clike' and fp(case)[0] % 2 == 0:
        other_flavours_see(case)
    try:
        _execute(case, info=info)
    except _Mismatch as m:
        sig, msg = m.sig, m.msg
        mode = ''
        try:
            _execute(case, eager=True)
            mode = '@lazy-only'
            msg += '\n (the same operations with a read after every step give the expected lists: lazy-queue defect)'
            for k in range(len(case['ops'])):
                try:
                    _execute(case, read_after=k)
                except _Mismatch as m3:
                    sig, msg = m3.sig, m3.msg + '\n (with a read after every step the lists are as expected: lazy-queue defect)'
                    break
        except _Mismatch as m2:
            sig, msg = m2.sig, m2.msg
        if case['cls'] != 'clike':
            sig = 'base-' + sig
        return Failure(sig + mode, case, f"{case['cls']} init={case['init']} ops={json.dumps(case['ops'])}\n {msg}")
    return None


def other_flavours_see(case: dict) -> None:
    """Mixed-language circumstance: before the list under test is built, argument lists of the OTHER flavours living in
    the same process (the generic CompilerArgs, and DCompilerArgs) are given the very same argument strings and read.
    The contract holds for every list on its own, so this must not change what the C-like list does (it would if
    per-argument classification were shared between the flavours)."""
    e = get_env()
    words: T.List[str] = list(case.get('init', []))
    for op in case['ops']:
        for x in op[1:]:
            if isinstance(x, str):
                words.append(x)
            elif isinstance(x, list):
                words.extend(w for w in x if isinstance(w, str))
    flavours = [e['CompilerArgs']]
    try:
        from mesonbuild.compilers.d import DCompilerArgs
        flavours.append(DCompilerArgs)
    except Exception:
        pass
    for cls in flavours:
        try:
            o = cls(e['stub'], [])
            o += words
            o += words
            list(o)
        except Exception:
            pass          # the other flavour's own behaviour on these strings is not what is being judged here


def case_class(case: dict) -> str:
    names = {op[0] for op in case['ops']}
    parts = [case['cls']]
    if names & set(NEW_SLOT):
        parts.append('copies')
    if names & set(DIRECT_W):
        parts.append('direct')
    if names & set(RAW_W):
        parts.append('rawedit')
    if 'native' in names or 'native_final' in names:
        parts.append('native')
    return '+'.join(parts)


# ---------------------------------------------------------------------------
# (2) generated op lists: Hypothesis strategy and a cheap seeded generator producing the same JSON cases

OP_SHAPE = {
    'iadd': 'sb', 'append': 'sa', 'extend': 'sb', 'extend_iter': 'sb', 'iadd_ca': 'ss', 'add': 'sb', 'radd': 'sb', 'add_ca': 'ss',
    'ctor': 's', 'copy': 's', 'append_direct': 'sa', 'extend_direct': 'sb', 'preserving': 'sb',
    'insert': 'sia', 'setitem': 'sia', 'delitem': 'si', 'remove': 'sa', 'pop': 'si',
    'list': 's', 'iter': 's', 'getitem': 'si', 'slice': 'sii', 'eq': 's', 'eq_ca': 'ss', 'contains': 'sa', 'count': 'sa',
    'index': 'sa', 'native': 's', 'native_final': 's', 'len': 's', 'reversed': 's', 'reverse': 's',
}
OP_WEIGHT = {'iadd': 14, 'append': 5, 'extend': 4, 'extend_iter': 1, 'iadd_ca': 2, 'add': 2, 'radd': 2, 'add_ca': 1,
             'ctor': 1, 'copy': 3, 'append_direct': 2, 'extend_direct': 3, 'preserving': 2, 'insert': 2, 'setitem': 1,
             'delitem': 1, 'remove': 2, 'pop': 1, 'list': 4, 'iter': 1, 'getitem': 1, 'slice': 1, 'eq': 1, 'eq_ca': 1,
             'contains': 2, 'count': 1, 'index': 1, 'native': 3, 'native_final': 1, 'len': 1, 'reversed': 1, 'reverse': 1}
OP_NAMES_WEIGHTED = [n for n, w in OP_WEIGHT.items() for _ in range(w)]


def case_strategy() -> T.Any:
    from hypothesis import strategies as st

    @st.composite
    def cases(draw: T.Any) -> dict:
        cls = draw(st.sampled_from(['clike'] * 7 + ['base']))
        pool = ALPHA_CLIKE if cls == 'clike' else ALPHA_BASE
        alpha = draw(st.lists(st.sampled_from(pool), min_size=2, max_size=8, unique=True))
        part = {'s': st.integers(0, 3), 'i': st.integers(-6, 6), 'a': st.sampled_from(alpha),
                'b': st.lists(st.sampled_from(alpha), max_size=4)}

        def mk(name: str) -> T.Any:
            return st.tuples(st.just(name), *[part[c] for c in OP_SHAPE[name]]).map(list)
        op = st.sampled_from(OP_NAMES_WEIGHTED).flatmap(mk)
        init = draw(st.one_of(st.just([]), part['b']))
        ops = draw(st.lists(op, min_size=1, max_size=30))
        return {'cls': cls, 'init': init, 'ops': ops}
    return cases()


def random_case(rnd: random.Random) -> dict:
    cls = 'base' if rnd.random() < 0.1 else 'clike'
    pool = ALPHA_CLIKE if cls == 'clike' else ALPHA_BASE
    alpha = rnd.sample(pool, rnd.randint(2, 8))

    def part(c: str) -> T.Any:
        if c == 's':
            return rnd.randint(0, 3)
        if c == 'i':
            return rnd.randint(-6, 6)
        if c == 'a':
            return rnd.choice(alpha)
        return [rnd.choice(alpha) for _ in range(rnd.choice((0, 1, 1, 1, 2, 2, 2, 3, 4)))]
    ops = []
    for _ in range(rnd.randint(1, 30)):
        name = rnd.choice(OP_NAMES_WEIGHTED)
        ops.append([name] + [part(c) for c in OP_SHAPE[name]])
    init = part('b') if rnd.random() < 0.5 else []
    return {'cls': cls, 'init': init, 'ops': ops}


def _judge(raw: dict, ev: Evidence) -> T.Optional[Failure]:
    case, excl = normalise(raw)
    info: dict = {}
    f = run_case(case, info)
    for x in excl + info.get('excluded', []):
        ev.exclude(x)
    if info.get('nontrivial'):
        ev.case(case, nontrivial=True, cls=case_class(case))      # samples are taken from non-trivial cases only
    else:
        ev.evaluations += 1
        ev.event(case_class(case))
    if info.get('lazy_reads'):
        ev.event('cases_with_read_after_>=2_unflushed_writes')
    return f


def _campaign_shard(shard: T.Tuple[int, int], ev: Evidence, fails: T.List[Failure]) -> None:
    seed, n = shard
    get_env()
    campaign(case_strategy(), lambda raw: _judge(raw, ev), n, seed, fails)


def shrink_case(case: dict, sig: str) -> Failure:
    """ddmin over the op list, then single arguments out of batches and the initial list."""
    from harness.core import minimize_list

    def fails_with(c: dict) -> T.Optional[Failure]:
        norm, _ = normalise(c)
        if not norm['ops']:
            return None
        f = run_case(norm)
        return f if f is not None and f.sig == sig else None

    best = fails_with(case)
    if best is None:
        raise HarnessError(f'failure does not reproduce while shrinking: {sig} {case}')
    cur = {'cls': case['cls'], 'init': list(case['init']), 'ops': [list(o) for o in case['ops']]}
    ops = minimize_list(cur['ops'], lambda cand: fails_with({'cls': cur['cls'], 'init': cur['init'], 'ops': cand}) is not None, max_tests=600)
    cur['ops'] = ops
    changed = True
    rounds = 0
    while changed and rounds < 6:
        changed = False
        rounds += 1
        for i in range(len(cur['init']) - 1, -1, -1):
            cand = dict(cur, init=cur['init'][:i] + cur['init'][i + 1:])
            if fails_with(cand) is not None:
                cur, changed = cand, True
        for oi, op in enumerate(cur['ops']):
            for pi, part in enumerate(op):
                if isinstance(part, list):
                    for i in range(len(part) - 1, -1, -1):
                        nop = list(op)
                        nop[pi] = nop[pi][:i] + nop[pi][i + 1:]
                        cand = dict(cur, ops=cur['ops'][:oi] + [nop] + cur['ops'][oi + 1:])
                        if fails_with(cand) is not None:
                            cur, changed, op = cand, True, nop
                elif isinstance(part, int) and pi >= 1 and part != 0:
                    nop = list(op)
                    nop[pi] = 0
                    cand = dict(cur, ops=cur['ops'][:oi] + [nop] + cur['ops'][oi + 1:])
                    if fails_with(cand) is not None:
                        cur, changed, op = cand, True, nop
        ops = minimize_list(cur['ops'], lambda cand: fails_with(dict(cur, ops=cand)) is not None, max_tests=200)
        if len(ops) < len(cur['ops']):
            cur, changed = dict(cur, ops=ops), True
    f = fails_with(cur)
    assert f is not None
    return f


def _random_shard(shard: T.Tuple[int, int], ev: Evidence, fails: T.List[Failure]) -> None:
    seed, n = shard
    get_env()
    rnd = random.Random(seed)
    buckets: T.Dict[str, dict] = {}
    for _ in range(n):
        raw = random_case(rnd)
        f = _judge(raw, ev)
        if f is not None and f.sig not in buckets and len(buckets) < 8:
            buckets[f.sig] = raw
    for sig, raw in buckets.items():
        fails.append(shrink_case(raw, sig))


# ---------------------------------------------------------------------------
# (1) exhaustive enumeration

ENUM_ALPHA7 = ['-Ia', '-Ib', '-DA', '-isystemS', '-lx', '-O2', '-D']
ENUM_ALPHA4 = ['-Ia', '-DA', '-lx', '-O2']
ENUM_ALPHA5 = ['-Ia', '-Ib', '-DA', '-lx', '-O2']
ENUM_ALPHA11 = ['-Ia', '-Ib', '-La', '-DA', '-UA', '-isystemS', '-lx', '/abs/liby.a', '-pthread', '-O2', '-D']
ENUM_INITS = [[], ['-Ia', '-DA', '-lx', '-O2'], ['-DA', '-Ia', '-DA', '-Ia', '-lx', '-lx']]


def enum_ops(alpha: T.Sequence[str], maxbatch: int) -> T.List[tuple]:
    ops: T.List[tuple] = []
    for k in range(1, maxbatch + 1):
        for b in itertools.product(alpha, repeat=k):
            ops.append(('iadd', b))
    for a in alpha:
        ops.append(('direct', a))
    ops += [('read',), ('copy_go',), ('copy_stay',)]
    return ops


def enum_to_case(init: T.Sequence[str], seq: T.Sequence[tuple]) -> dict:
    """The same sequence in the generic op-list format (slot 0 = original; copies get new slots)."""
    ops: T.List[list] = []
    cur = 0
    nslots = 1
    for op in seq:
        if op[0] == 'iadd':
            ops.append(['iadd', cur, list(op[1])])
        elif op[0] == 'direct':
            ops.append(['append_direct', cur, op[1]])
        elif op[0] == 'read':
            ops.append(['list', cur])
        else:
            ops.append(['copy', cur])
            if op[0] == 'copy_go':
                cur = nslots
            nslots += 1
    return {'cls': 'clike', 'init': list(init), 'ops': ops}


def _enum_shard(shard: T.Tuple[str, int, T.List[int], T.List[str], T.List[str]], ev: Evidence, fails: T.List[Failure]) -> None:
    tag, depth, first, alpha, init = shard
    e = get_env()
    cc = e['cc']
    maxbatch = 2
    ops = enum_ops(alpha, maxbatch)
    kind = R.kind_clike
    memo: T.Dict[T.Tuple[tuple, int], T.Tuple[tuple, bool]] = {}
    init_t = tuple(init)

    def step(state: tuple, oi: int) -> T.Tuple[tuple, bool]:
        key = (state, oi)
        r = memo.get(key)
        if r is None:
            op = ops[oi]
            ref = R.RefArgs(kind, state)
            dup = False
            if op[0] == 'iadd':
                seen: T.Set[str] = set()
                for a in op[1]:
                    if kind(a) in (R.PREPEND, R.APPEND) and (a in state or a in seen):
                        dup = True
                    seen.add(a)
                ref.add(op[1])
            else:
                ref.direct(op[1])
            r = memo[key] = (tuple(ref.l), dup)
        return r

    n = 0
    nt = 0
    bad: T.Dict[str, Failure] = {}
    codes = [o[0] for o in ops]
    nops = len(ops)
    sample_at = {0, 1, 2}
    for f0 in first:
        for rest in itertools.product(range(nops), repeat=depth - 1):
            seq = (f0,) + rest
            if codes[seq[-1]] in ('read', 'copy_go', 'copy_stay'):
                continue           # equal to the shorter sequence followed by the final read
            n += 1
            real = cc.compiler_args(list(init))
            state = init_t
            frozen: T.List[T.Tuple[T.Any, tuple]] = []
            pending = 0
            dup = False
            is_nt = False
            ok = True
            for oi in seq:
                c = codes[oi]
                if c == 'iadd':
                    real += list(ops[oi][1])
                    state, d = step(state, oi)
                    pending += 1
                    dup = dup or d
                elif c == 'direct':
                    if pending >= 2 and dup:
                        is_nt = True
                    pending, dup = 0, False
                    real.append_direct(ops[oi][1])
                    state, _ = step(state, oi)
                else:
                    if pending >= 2 and dup:
                        is_nt = True
                    pending, dup = 0, False
                    if c == 'read':
                        if tuple(real) != state:
                            ok = False
                            break
                    elif c == 'copy_go':
                        new = real.copy()
                        frozen.append((real, state))
                        real = new
                    else:
                        frozen.append((real.copy(), state))
            if pending >= 2 and dup:
                is_nt = True
            if ok:
                if tuple(real) != state:
                    ok = False
                else:
                    for fo, fs in frozen:
                        if tuple(fo) != fs:
                            ok = False
            if is_nt:
                nt += 1
            if n in sample_at:
                ev.case(None, cls=f'enum/{tag}', n=0, sample=enum_to_case(init, [ops[i] for i in seq]))
            if not ok and len(bad) < 6:
                f = run_case(enum_to_case(init, [ops[i] for i in seq]))
                if f is None:
                    raise HarnessError(f'enumeration and generic runner disagree on {[ops[i] for i in seq]} from {init}')
                if f.sig not in bad:
                    bad[f.sig] = f
    fails.extend(bad.values())
    ev.evaluations += n
    ev.add_distinct(nt)
    ev.event(f'enum/{tag}', n)
    ev.event('enum_nontrivial', nt)


def enum_shards(ctx: Ctx) -> T.List[tuple]:
    plan: T.List[T.Tuple[str, int, T.List[str], T.List[T.List[str]]]] = []
    if ctx.quick:
        plan += [('a7', d, ENUM_ALPHA7, ENUM_INITS) for d in (1, 2, 3)]
        plan += [('a5', 4, ENUM_ALPHA5, ENUM_INITS[:1])]
    else:
        plan += [('a7', d, ENUM_ALPHA7, ENUM_INITS) for d in (1, 2, 3)]
        plan += [('a7', 4, ENUM_ALPHA7, [ENUM_INITS[0], ENUM_INITS[2]])]
        plan += [('a4', 5, ENUM_ALPHA4, ENUM_INITS[:1])]
        plan += [('a11', d, ENUM_ALPHA11, ENUM_INITS) for d in (1, 2, 3)]
    shards = []
    for tag, depth, alpha, inits in plan:
        nops = len(enum_ops(alpha, 2))
        for init in inits:
            ii = ENUM_INITS.index(init)
            per = 1 if depth >= 4 else (4 if depth == 3 else nops)
            for lo in range(0, nops, per):
                shards.append((f'{tag}-d{depth}-init{ii}', depth, list(range(lo, min(nops, lo + per))), alpha, init))
    return shards


# ---------------------------------------------------------------------------
# deterministic probes (confirmed findings keep one probe each)

def probe_nocopy_read(ctx: Ctx) -> None:
    """The ninja backend reads the link arguments twice: elem.add_item('LINK_ARGS', commands) and then
    create_target_linker_introspection(commands).  A first read that converts the list in place (to_native() without
    copy inserts -Wl,--start-group/--end-group into the object itself) makes the second read invent the group flags
    again.  Checked through the real caller: configure an executable linking two static libraries and compare the
    linker parameters in intro-targets.json with LINK_ARGS in build.ninja (to_native(copy=False) on a bare object is
    destructive by design and stays excluded from the campaigns)."""
    import json as _json
    from harness import mesondrv as M
    root = make_scratch('C13-probe')
    try:
        src, bld = os.path.join(root, 's'), os.path.join(root, 'b')
        M.write_tree(src, {
            'meson.build': "project('p', 'c')\na = static_library('a', 'a.c')\nb = static_library('b', 'b.c')\n"
                           "executable('e', 'e.c', link_with: [a, b])\n",
            'a.c': 'int fa(void) { return 1; }\n', 'b.c': 'int fb(void) { return 2; }\n',
            'e.c': 'int fa(void); int fb(void); int main(void) { return fa() + fb() - 3; }\n'})
        r = M.run_sub(['setup', bld, src], cwd=root)
        ctx.ev.case({'probe': 'intro-targets linker parameters vs LINK_ARGS'}, cls='probe')
        if r.rc != 0:
            raise HarnessError(f'C13 probe project does not configure: {r!r}')
        with open(os.path.join(bld, 'meson-info', 'intro-targets.json'), encoding='utf-8') as fh:
            tg = [t for t in _json.load(fh) if t['name'] == 'e'][0]
        params = [p_ for ts in tg['target_sources'] if 'linker' in ts for p_ in ts['parameters']]
        n_start, n_end = params.count('-Wl,--start-group'), params.count('-Wl,--end-group')
        with open(os.path.join(bld, 'build.ninja'), encoding='utf-8') as fh:
            link_args = [ln for ln in fh.read().split('\n') if ln.startswith(' LINK_ARGS =') and 'liba.a' in ln]
        n_real = link_args[0].count('-Wl,--start-group') if link_args else -1
        if n_start != n_real or n_end != n_real:
            ctx.fail(Failure('native/nocopy-read-then-read:group-flags-doubled', {'probe': 'nocopy-read-then-read'},
                             f"executable('e', 'e.c', link_with: [a, b]) with two static libraries: build.ninja has "
                             f'{n_real} -Wl,--start-group on the link line ({link_args[:1]}), intro-targets.json lists the linker '
                             f'parameters {params}: the first read of the argument list (add_item -> to_native()) changed the list, '
                             'the second read (introspection) invented the group flags again.'))
    finally:
        shutil.rmtree(root, ignore_errors=True)


# ---------------------------------------------------------------------------
# (3) end-to-end slice

E2E_LEVELS = ['project', 'global', 'option', 'dep', 'target']
E2E_TOKENS = ['-DX', '-DX=1', '-UX', '-DY', '-I@/shared', '-I@/other']


def e2e_files(case: dict, unique: bool) -> T.Tuple[T.Dict[str, str], T.List[str], T.Dict[str, str], T.Dict[str, str]]:
    """meson.build for the case; with unique=True every occurrence gets its own name.
    Returns files, extra setup arguments, {argument as written: original argument}, {argument as written: level}."""
    back: T.Dict[str, str] = {}
    owner: T.Dict[str, str] = {}
    lv: T.Dict[str, T.List[str]] = {}
    k = 0
    for level in E2E_LEVELS:
        out = []
        for tok in case.get(level, []):
            tok = tok.replace('@', '/c13inc')
            u = tok
            if unique:
                k += 1
                if '=' in tok:
                    name, val = tok.split('=', 1)
                    u = f'{name}_u{k}={val}'
                else:
                    u = f'{tok}_u{k}'
            back[u] = tok
            owner[u] = level
            out.append(u)
        lv[level] = out

    def lit(xs: T.List[str]) -> str:
        return '[' + ', '.join("'" + x + "'" for x in xs) + ']'
    lines = ["project('c13', 'c')"]
    if lv['global']:
        lines.append(f"add_global_arguments({lit(lv['global'])}, language: 'c')")
    if lv['project']:
        lines.append(f"add_project_arguments({lit(lv['project'])}, language: 'c')")
    lines.append(f"d = declare_dependency(compile_args: {lit(lv['dep'])})")
    lines.append(f"executable('e', 'e.c', c_args: {lit(lv['target'])}, dependencies: d)")
    files = {'meson.build': '\n'.join(lines) + '\n', 'e.c': 'int main(void) { return 0; }\n'}
    setup_args = []
    if lv['option']:
        setup_args.append('-Dc_args=' + ' '.join(lv['option']))
    return files, setup_args, back, owner


def parse_args_line(ninja_text: str) -> T.Optional[T.List[str]]:
    lines = ninja_text.splitlines()
    for i, line in enumerate(lines):
        if line.startswith('build ') and 'c_COMPILER' in line and 'e.c' in line:
            for l2 in lines[i + 1:]:
                if not l2.startswith(' '):
                    break
                if l2.strip().startswith('ARGS ='):
                    v = l2.split('=', 1)[1].strip()
                    v = v.replace('$:', ':').replace('$ ', ' ').replace('$$', '$')
                    return shlex.split(v)
    return None


def e2e_build(root: str, case: dict, unique: bool, sub: bool) -> T.Tuple[T.Optional[T.List[str]], T.Dict[str, str], T.Dict[str, str], str]:
    from harness import mesondrv
    files, setup_args, back, owner = e2e_files(case, unique)
    shutil.rmtree(root, ignore_errors=True)
    os.makedirs(root)
    mesondrv.write_tree(root, files)
    args = ['setup', 'bld'] + setup_args
    res = mesondrv.run_sub(args, cwd=root) if sub else mesondrv.run_inproc(args, cwd=root)
    path = os.path.join(root, 'bld', 'build.ninja')
    if res.rc != 0 or not os.path.exists(path):
        return None, back, owner, repr(res)
    with open(path, encoding='utf-8') as f:
        return parse_args_line(f.read()), back, owner, ''


def e2e_dedup(seq: T.List[str]) -> T.List[str]:
    """P3 on the finished line: front-most -I survives, last -D/-U survives."""
    out: T.List[str] = []
    for i, a in enumerate(seq):
        if a.startswith('-I'):
            if a in seq[:i]:
                continue
        elif a in seq[i + 1:]:
            continue
        out.append(a)
    return out


def e2e_check(root: str, case: dict, sub: bool) -> T.Optional[Failure]:
    args_u, back_u, owner, err_u = e2e_build(os.path.join(root, 'u'), case, True, sub)
    args_b, back_b, _, err_b = e2e_build(os.path.join(root, 'b'), case, False, sub)
    if args_u is None or args_b is None:
        raise HarnessError(f'e2e: meson setup failed or no compile edge for {case}: {err_u or err_b}')
    given = [t.replace('@', '/c13inc') for level in E2E_LEVELS for t in case.get(level, [])]
    ours_u = [back_u[a] for a in args_u if a in back_u]
    ours_b = [a for a in args_b if a in back_b]
    if sorted(ours_u) != sorted(given):
        return Failure('e2e/lost-or-invented', case, f'project with all settings renamed apart: given {sorted(given)}, '
                       f'ARGS carries {sorted(ours_u)} (after mapping back); ARGS = {args_u}')
    want = e2e_dedup(ours_u)
    if ours_b != want:
        return Failure('e2e/' + _diff_sig(ours_b, want, R.kind_clike), case,
                       f'levels {json.dumps(case)}\n ARGS (our arguments only) = {ours_b}\n expected {want}: the renamed-apart twin '
                       f'project puts the occurrences at {ours_u}; of identical ones the front-most -I / the last -D,-U must survive\n full ARGS = {args_b}')
    # order chain from the backend comments, on the twin project
    pos: T.Dict[str, T.List[int]] = {}
    for i, a in enumerate(args_u):
        if a in owner:
            pos.setdefault(owner[a] + (':I' if a.startswith('-I') else ':D'), []).append(i)
    chain = ['project', 'global', 'option', 'target']
    for lo, hi in zip(chain, chain[1:]):
        if lo + ':D' in pos and hi + ':D' in pos and max(pos[lo + ':D']) > min(pos[hi + ':D']):
            return Failure(f'e2e/level-order:-D:{lo}-after-{hi}', case, f'-D/-U of level {lo} must come before those of {hi} '
                           f'(later one takes effect); ARGS = {args_u}')
        if lo + ':I' in pos and hi + ':I' in pos and min(pos[lo + ':I']) < max(pos[hi + ':I']):
            return Failure(f'e2e/level-order:-I:{lo}-before-{hi}', case, f'-I of level {hi} is added later and must be in front of those of {lo}; '
                           f'ARGS = {args_u}')
    return None


def e2e_case(rnd: random.Random) -> dict:
    case: T.Dict[str, T.List[str]] = {}
    shared = rnd.sample(E2E_TOKENS, rnd.randint(1, 3))
    for level in E2E_LEVELS:
        if rnd.random() < 0.75:
            n = rnd.randint(1, 3)
            case[level] = [rnd.choice(shared) if rnd.random() < 0.8 else rnd.choice(E2E_TOKENS) for _ in range(n)]
    if sum(len(v) for v in case.values()) < 2:
        case['project'] = [shared[0]]
        case['target'] = [shared[0]]
    return case


def e2e_nontrivial(case: dict) -> bool:
    c = collections.Counter(t for level in E2E_LEVELS for t in set(case.get(level, [])))
    return any(v >= 2 for v in c.values())


def _e2e_shard(shard: T.Tuple[int, int], ev: Evidence, fails: T.List[Failure]) -> None:
    seed, n = shard
    rnd = random.Random(seed)
    root = make_scratch('C13-e2e')
    try:
        for _ in range(n):
            case = e2e_case(rnd)
            ev.case(case, nontrivial=e2e_nontrivial(case), cls='e2e')
            f = e2e_check(root, case, sub=False)
            if f is None:
                continue
            f2 = e2e_check(root, case, sub=True)       # authoritative re-run in a fresh process
            if f2 is None:
                ev.inproc_only += 1
                continue
            # greedy minimisation: drop one token at a time (bounded)
            cur = case
            budget = 12
            changed = True
            while changed and budget > 0:
                changed = False
                for level in E2E_LEVELS:
                    for i in range(len(cur.get(level, []))):
                        if budget <= 0:
                            break
                        cand = {k: list(v) for k, v in cur.items()}
                        del cand[level][i]
                        if not cand[level]:
                            del cand[level]
                        if sum(len(v) for v in cand.values()) < 1:
                            continue
                        budget -= 1
                        g = e2e_check(root, cand, sub=True)
                        if g is not None and g.sig == f2.sig:
                            cur, f2, changed = cand, g, True
                            break
                    if changed:
                        break
            fails.append(f2)
            break
    finally:
        shutil.rmtree(root, ignore_errors=True)


# ---------------------------------------------------------------------------

def selftest(ctx: Ctx) -> None:
    err = R.selftest()
    if err:
        raise HarnessError('reference model self-test: ' + err)
    if e2e_dedup(['-Ia', '-DX', '-Ia', '-DX', '-DY']) != ['-Ia', '-DX', '-DY']:
        raise HarnessError('e2e_dedup self-test')
    sample = 'build e.p/e.c.o: c_COMPILER ../e.c\n DEPFILE = x\n ARGS = -Ie.p -DX=1 -I/c13inc/shared\n\nbuild other: phony\n'
    if parse_args_line(sample) != ['-Ie.p', '-DX=1', '-I/c13inc/shared']:
        raise HarnessError('build.ninja ARGS parser self-test')
    raw = {'cls': 'clike', 'init': ['-I'], 'ops': [['native_final', 0], ['list', 0], ['len', 0], ['preserving', 0, ['-lfoo', '-O2']]]}
    norm, excl = normalise(raw)
    if norm != {'cls': 'clike', 'init': [], 'ops': [['list', 0]]} or len(excl) != 4:
        raise HarnessError(f'normalise self-test: {norm} {excl}')


def run(ctx: Ctx) -> None:
    get_env()          # before forking: every worker inherits the one detected compiler object
    pmap(ctx, _enum_shard, enum_shards(ctx))
    nper = ctx.n(400, 3000)
    pmap(ctx, _campaign_shard, [(s, nper) for s in shard_seeds(ctx, 16)])
    nrand = ctx.n(12000, 80000)
    pmap(ctx, _random_shard, [(s + 104729, nrand) for s in shard_seeds(ctx, 16)])
    ne2e = ctx.n(2, 12)
    pmap(ctx, _e2e_shard, [(s + 7919, ne2e) for s in shard_seeds(ctx, 16)])
    ctx.exhaustive = True
    ctx.ev.extra['exhaustive_scope'] = ('op sequences of the enumeration shards (see class_histogram enum/*) are enumerated completely; '
                                        'the Hypothesis campaign and the e2e slice are sampled')
    ctx.ev.extra['compiler'] = repr(get_env()['cc'])[:200]


def replay(ctx: Ctx, case: T.Any, doc: dict) -> T.Optional[Failure]:
    get_env()
    if isinstance(case, dict) and case.get('probe') == 'nocopy-read-then-read':
        c2 = Ctx(ctx.prop, ctx.tier, ctx.seed)
        probe_nocopy_read(c2)
        return next(iter(c2.failures.values()), None)
    if isinstance(case, dict) and 'ops' in case:
        norm, _ = normalise(case)
        return run_case(norm)
    if isinstance(case, dict):
        root = make_scratch('C13-replay')
        try:
            return e2e_check(root, case, sub=True)
        finally:
            shutil.rmtree(root, ignore_errors=True)
    raise HarnessError(f'cannot replay {case!r}')
