"""C02 - Parsing is total, lossless and position-accurate.

Oracle (every clause is a sentence of the property, see reports/C02.md):
  for every input text t, Parser(t, 'f').parse()
    * either raises a MesonException that carries an integer (lineno, colno) lying inside t,
    * or returns a tree whose RawPrinter output == t (byte for byte);
    * nothing but a MesonException may escape from parsing, and nothing at all from RawPrinter /
      AstPrinter / AstJSONPrinter on an accepted tree (MesonException from the two non-raw printers is
      recorded, it belongs to C17);
    * for every FunctionNode / ArrayNode the recorded (lineno, colno)-(end_lineno, end_colno), read the way
      rewriter.apply_changes reads it (1-based line, 0-based column, end exclusive, offset = start of line + col),
      must be exactly the extent of that call / literal as computed by an INDEPENDENT scanner + bracket matcher
      in this file (set equality over all calls / literals of the text: no extent wrong, none missing).

The scanner below (token table of docs/markdown/Syntax.md) is used for three things only: as the reference model
for extents, to classify inputs into the known-defect classes that are excluded (and counted), and to cut corpus
files into tokens for mutation.  It never decides accept/reject.
"""
from __future__ import annotations

import collections
import itertools
import json
import os
import random
import re
import subprocess
import sys
import signal
import threading
import typing as T

if __name__ == '__main__':   # atheris child process: make `harness` importable
    sys.path.insert(0, os.path.dirname(os.path.dirname(os.path.abspath(__file__))))

from harness.core import Ctx, Evidence, Failure, HarnessError, pmap, campaign, shard_seeds, minimize_list, REPO, VERIF
from harness import core as _core

LEVEL = 'exploration'
RULE = ('(a) exhaustive: every sequence of <=L tokens over a token alphabet (quick: L<=4 over 30 tokens and L<=3 over all 49; '
        'thorough: L<=4 over all 49, L<=5 over 19, L<=6 over 10), each rendered twice: single blank between tokens, and no blank '
        'wherever the independent scanner proves the two tokens do not fuse; (b) Hypothesis token soups with balanced-bracket groups, '
        'random separators (blank, newline, comment, line continuation) and junk characters; (b2) Hypothesis grammar-directed '
        'programs (expressions, calls, arrays, dicts, methods, index, ternary, if/foreach blocks) with random trivia, plus arbitrary unicode text; '
        '(c) 1-3 token-level delete/duplicate/swap/insert/replace mutations of every build file found under the repo; (d) every such file verbatim; '
        '(e) special classes (BOM, CR, NUL, form feed/U+2028, unterminated strings, newline in plain strings, nesting 1..33, 1 MB lines, 4300-digit numbers); '
        '(f, thorough) an atheris byte-level campaign with the same oracle inside the target. '
        'non-trivial = accepted text with >=1 significant (non-blank, non-comment) token, or rejected text whose first two tokens are individually '
        'valid tokens. distinct by the text itself (sha1) for generated cases; enumerated sequences are distinct by construction (the unspaced '
        'rendering is counted only when it differs from the spaced one).')
ASSUMPTIONS = [
    'a "line" is delimited by \\n only (what the lexer and its error messages use); columns are 0-based character offsets, lines 1-based, '
    'end exclusive - the reading of rewriter.apply_changes/remove_node (lines 1043-1048)',
    'a located error may point at the position just after the last character of its line, including just after its newline (end of input)',
    'the BOM diagnostic (lineno 0, colno 0) is accepted as "start of file" only for BOM-prefixed input',
    'MESON_RUNNING_IN_PROJECT_TESTS is unset (the `testcase` keyword is an internal test-suite mode and is not part of the language)',
    'input is a str without lone surrogates (what reading a UTF-8 file can produce)',
]

# ---------------------------------------------------------------------------
# independent scanner (docs/markdown/Syntax.md: strings, f-strings, multiline strings, numbers, comments, line continuation)

_TOK_RE = re.compile(r"""
  (?P<ws>[ \t]+)
 |(?P<mfstr>f'''(?:.|\n)*?''')
 |(?P<fstr>f'(?:[^'\\]|\\.)*')
 |(?P<id>[_a-zA-Z][_0-9a-zA-Z]*)
 |(?P<num>0[bB][01]+|0[oO][0-7]+|0[xX][0-9a-fA-F]+|0|[1-9]\d*)
 |(?P<cont>\\[ \t]*(?:\#.*)?\n)
 |(?P<mstr>'''(?:.|\n)*?''')
 |(?P<comment>\#.*)
 |(?P<str>'(?:[^'\\]|\\.)*')
 |(?P<op>\+=|==|!=|<=|>=|[()\[\]{},.+\-*%/:=<>?])
 |(?P<nl>\n)
""", re.X)

KEYWORDS = frozenset(['true', 'false', 'if', 'else', 'elif', 'endif', 'and', 'or', 'not', 'foreach', 'endforeach',
                      'in', 'continue', 'break'])
TRIVIA = frozenset(['ws', 'nlws', 'cont', 'comment'])
STRINGS = frozenset(['str', 'fstr', 'mstr', 'mfstr'])

Tok = T.Tuple[str, str, int, int]   # kind, value, start, end


class Scan:
    __slots__ = ('toks', 'sig', 'complete', 'text')

    def __init__(self, text: str):
        self.text = text
        toks: T.List[Tok] = []
        pos, n, depth = 0, len(text), [0, 0, 0]
        match = _TOK_RE.match
        complete = True
        while pos < n:
            m = match(text, pos)
            if m is None:
                complete = False
                break
            kind = m.lastgroup or ''
            val = m.group()
            if kind == 'id' and val in KEYWORDS:
                kind = 'kw'
            elif kind == 'op':
                if val == '(':
                    depth[0] += 1
                elif val == ')':
                    depth[0] -= 1
                elif val == '[':
                    depth[1] += 1
                elif val == ']':
                    depth[1] -= 1
                elif val == '{':
                    depth[2] += 1
                elif val == '}':
                    depth[2] -= 1
            elif kind == 'nl':
                kind = 'nlws' if (depth[0] > 0 or depth[1] > 0 or depth[2] > 0) else 'eol'
            toks.append((kind, val, pos, m.end()))
            pos = m.end()
        self.toks = toks
        self.sig = [t for t in toks if t[0] not in TRIVIA]
        self.complete = complete


def _is_operand_end(t: Tok) -> bool:
    k, v = t[0], t[1]
    if k in ('id', 'num') or k in STRINGS:
        return True
    if k == 'kw':
        return v in ('true', 'false')
    return k == 'op' and v in (')', ']', '}')


_CLOSER = {'(': ')', '[': ']', '{': '}'}


def model_extents(sc: Scan) -> T.Optional[T.Dict[str, T.List[T.Tuple[int, int]]]]:
    """Reference model: extents of every call, method call, array/dict literal, parenthesised expression.
    Only meaningful for accepted (hence bracket-balanced) text; None when brackets do not nest."""
    res: T.Dict[str, T.List[T.Tuple[int, int]]] = {'function': [], 'array': [], 'method': [], 'dict': [], 'paren': [], 'index': []}
    stack: T.List[T.Tuple[str, str, int]] = []
    sig = sc.sig
    for i, (k, v, s, e) in enumerate(sig):
        if k != 'op':
            continue
        if v in _CLOSER:
            prev = sig[i - 1] if i else None
            if v == '(':
                if prev is not None and prev[0] == 'id':
                    pp = sig[i - 2] if i >= 2 else None
                    role = 'method' if (pp is not None and pp[0] == 'op' and pp[1] == '.') else 'function'
                    start = prev[2]
                else:
                    role, start = 'paren', s
            elif v == '[':
                role, start = ('index' if (prev is not None and _is_operand_end(prev)) else 'array'), s
            else:
                role, start = 'dict', s
            stack.append((v, role, start))
        elif v in (')', ']', '}'):
            if not stack or _CLOSER[stack[-1][0]] != v:
                return None
            _, role, start = stack.pop()
            res[role].append((start, e))
    if stack:
        return None
    return res


# -- classifiers for the known-defect classes (all computed on the text, before the oracle looks at the result) -----------

_CLEAN_UNARY_PREV_OPS = frozenset(['(', '[', '{', ',', ':', '=', '+=', '?', '==', '!=', '<', '>', '<=', '>=', '+', '*', '/', '%'])
_CLEAN_UNARY_PREV_KW = frozenset(['and', 'or', 'if', 'elif', 'in'])


def cls_dangling_not(sc: Scan) -> bool:
    """a `not` that is not followed by `in` and does not stand where a unary `not` may start an operand (start of a
    statement, after an opener, a separator, or a binary operator).  Over-approximates the defect class (e.g. `a - not b`)."""
    sig = sc.sig
    for i, t in enumerate(sig):
        if t[0] == 'kw' and t[1] == 'not':
            nxt = sig[i + 1] if i + 1 < len(sig) else None
            if nxt is not None and nxt[0] == 'kw' and nxt[1] == 'in':
                continue
            if i == 0:
                continue
            p = sig[i - 1]
            if p[0] == 'eol' or (p[0] == 'op' and p[1] in _CLEAN_UNARY_PREV_OPS) or (p[0] == 'kw' and p[1] in _CLEAN_UNARY_PREV_KW):
                continue
            return True
    return False


def cls_newline_in_plain_string(sc: Scan) -> bool:
    return any(t[0] in ('str', 'fstr') and '\n' in t[1] for t in sc.toks)


def cls_eof_after_multiline_string(sc: Scan) -> bool:
    """the text ends with a '''...''' token that contains a newline (an error raised at end of input is then mis-located)"""
    return bool(sc.toks) and sc.complete and sc.toks[-1][0] in ('mstr', 'mfstr') and '\n' in sc.toks[-1][1]


def cls_positional_after_kwarg(sc: Scan) -> bool:
    """some ( ... ) or [ ... ] group has an element with a top-level `:` (not closing a `?`) followed by a later non-empty element without one"""
    # frame: [opener, seen_kw, cur_has_tokens, cur_is_kw, pending_question]
    stack: T.List[T.List[T.Any]] = []
    for k, v, _, _ in sc.sig:
        if k == 'op' and v in _CLOSER:
            if stack:
                stack[-1][2] = True
            stack.append([v, False, False, False, 0])
            continue
        if not stack:
            continue
        fr = stack[-1]
        if k == 'op' and v in (')', ']', '}'):
            if fr[0] != '{' and fr[1] and fr[2] and not fr[3]:
                return True
            stack.pop()
            continue
        if k == 'op' and v == ',':
            if fr[0] != '{' and fr[1] and fr[2] and not fr[3]:
                return True
            if fr[3]:
                fr[1] = True
            fr[2], fr[3], fr[4] = False, False, 0
            continue
        if k == 'op' and v == '?':
            fr[4] += 1
        elif k == 'op' and v == ':':
            if fr[4] > 0:
                fr[4] -= 1
            else:
                fr[3] = True
        fr[2] = True
    return False


_CHAIN_OPS = frozenset(['+', '-', '*', '/', '%', '.', '=', '+=', '==', '!=', '<', '>', '<=', '>=', '?', '[', '('])
FRAME_BUDGET = 400       # estimated interpreter frames an input may need; CPython's limit is 1000 and the harness itself sits ~100 deep


def est_frames(sc: Scan) -> int:
    """over-estimate of the Python recursion depth parser+printers need: 12 frames per bracket level, 3 per
    chained operator of one expression, 3 per nested if/foreach block"""
    depth = maxdepth = chain = maxchain = block = maxblock = 0
    prev: T.Optional[Tok] = None
    for t in sc.sig:
        k, v = t[0], t[1]
        if k == 'op':
            if v in _CLOSER:
                depth += 1
                maxdepth = max(maxdepth, depth)
            elif v in (')', ']', '}'):
                depth = max(0, depth - 1)
            if v in _CHAIN_OPS and (v not in ('[', '(') or (prev is not None and _is_operand_end(prev))):
                chain += 1
                maxchain = max(maxchain, chain)
            elif v in (',', ':'):
                chain = 0
        elif k == 'eol':
            chain = 0
        elif k == 'kw':
            if v in ('and', 'or', 'not', 'in'):
                chain += 1
                maxchain = max(maxchain, chain)
            elif v in ('if', 'foreach'):
                block += 1
                maxblock = max(maxblock, block)
            elif v in ('endif', 'endforeach'):
                block = max(0, block - 1)
        prev = t
    return 12 * maxdepth + 3 * maxchain + 3 * maxblock


MAX_NUM_LEN = 1000


def cls_huge_number(sc: Scan) -> bool:
    return any(t[0] == 'num' and len(t[1]) > MAX_NUM_LEN for t in sc.toks)


# ---------------------------------------------------------------------------
# code under test (lazy)

class _M:
    pass


_mods_cache: T.Optional[_M] = None


def _mods() -> _M:
    global _mods_cache
    if _mods_cache is None:
        _core.repo_on_path()
        os.environ.pop('MESON_RUNNING_IN_PROJECT_TESTS', None)
        from mesonbuild import mparser, mlog
        from mesonbuild.ast.printer import RawPrinter, AstPrinter, AstJSONPrinter
        from mesonbuild.mesonlib import MesonException
        mlog._logger.log_disable_stdout = True     # the lexer prints deprecation warnings; not part of the contract
        m = _M()
        m.mparser, m.Parser, m.BaseNode = mparser, mparser.Parser, mparser.BaseNode
        m.RawPrinter, m.AstPrinter, m.AstJSONPrinter, m.MesonException = RawPrinter, AstPrinter, AstJSONPrinter, MesonException
        _mods_cache = m
    return _mods_cache


def walk(root: T.Any, base: type) -> T.Iterator[T.Any]:
    """every node reachable through attributes, lists and dicts (keys and values); iterative, independent of visitor.py"""
    stack = [root]
    seen: T.Set[int] = set()
    while stack:
        n = stack.pop()
        if id(n) in seen:
            continue
        seen.add(id(n))
        yield n
        for v in vars(n).values():
            if isinstance(v, base):
                stack.append(v)
            elif isinstance(v, list):
                stack.extend(x for x in v if isinstance(x, base))
            elif isinstance(v, dict):
                for kk, vv in v.items():
                    if isinstance(kk, base):
                        stack.append(kk)
                    if isinstance(vv, base):
                        stack.append(vv)


_SPLITLINES_ONLY = re.compile('[\r\x0b\x0c\x1c\x1d\x1e\x85\u2028\u2029]')
ROLE_OF = {'FunctionNode': 'function', 'ArrayNode': 'array', 'MethodNode': 'method', 'DictNode': 'dict', 'ParenthesizedNode': 'paren'}
ENFORCED = ('function', 'array')


class Res:
    __slots__ = ('fail', 'accepted', 'excluded', 'events', 'scan')

    def __init__(self) -> None:
        self.fail: T.Optional[Failure] = None
        self.accepted = False
        self.excluded: T.List[str] = []
        self.events: T.List[str] = []
        self.scan: T.Optional[Scan] = None


EX_NOT = 'class: `not` after an operand that is not followed by `in` (finding roundtrip/dropped-token:not) - round-trip clause skipped'
EX_NLSTR = "class: newline inside a plain '...' string (finding position/newline-in-plain-string) - position clauses skipped"
EX_KWPOS = 'class: positional argument after a keyword argument (finding roundtrip/reordered:positional-after-kwarg) - round-trip clause skipped'
EX_DEEP = 'class: nesting/operator chain needing > %d frames (findings crash/RecursionError:*) - input skipped' % FRAME_BUDGET
EX_BIGNUM = 'class: number literal longer than %d characters (finding crash/ValueError:int-digit-limit) - input skipped' % MAX_NUM_LEN
EX_EMPTYKEY = "class: dict literal key containing an empty operand (finding crash/TypeError:unhashable-EmptyNode) - input skipped"


EX_EOFML = "class: error at end of input right after a multi-line '''string''' (finding reject/location-outside-text:eof-after-multiline-string) - location clause skipped"


def _naive_eof(text: str, sc: Scan) -> T.Tuple[int, int]:
    """the (line, column) one gets by adding the length of the last token to its start column"""
    k, v, s, e = sc.toks[-1]
    line = text.count('\n', 0, s) + 1
    return line, s - (text.rfind('\n', 0, s) + 1) + (e - s)


# Known-defect classes whose affected clause is skipped (and counted) in the campaigns.  Remove a key here once the defect is
# fixed in the tree (or set VERIF_C02_ENFORCE=key,key,... / =all for one run - development aid) and the class is searched again.
EXCLUDE_KNOWN = {'kwpos', 'deep'}   # 'not', 'nlstr', 'bignum', 'emptykey', 'eofml' (and the parse half of 'deep') are fixed in /repo
_enf = set(x for x in os.environ.get('VERIF_C02_ENFORCE', '').split(',') if x)
if 'all' in _enf:
    EXCLUDE_KNOWN = set()
EXCLUDE_KNOWN -= _enf


def _case(text: str, **kw: T.Any) -> dict:
    d: T.Dict[str, T.Any] = {'text': text}
    d.update(kw)
    return d


def _crash_sig(stage: str, e: BaseException) -> str:
    name = type(e).__name__
    msg = str(e)
    if isinstance(e, RecursionError):
        return f'crash/RecursionError:{stage}'
    if isinstance(e, ValueError) and 'integer string conversion' in msg:
        return 'crash/ValueError:int-digit-limit'
    if isinstance(e, TypeError) and "unhashable type: 'EmptyNode'" in msg:
        return 'crash/TypeError:unhashable-EmptyNode'
    norm = re.sub(r'[^A-Za-z]+', '-', msg)[:30].strip('-')
    return f'crash/{name}:{stage}:{norm}'


def _tb_tail(e: BaseException) -> str:
    import traceback
    fr = traceback.extract_tb(e.__traceback__)
    return ' <- '.join(f'{os.path.basename(f.filename)}:{f.lineno}:{f.name}' for f in reversed(fr[-3:]))


def _short(s: str, n: int = 160) -> str:
    r = repr(s)
    return r if len(r) <= n else r[:n // 2] + '...' + r[-n // 2:]


def diff_signature(sc_in: Scan, out: str) -> str:
    so = Scan(out)
    tin = [(k if k in TRIVIA or k == 'eol' else ('w' if k in ('id', 'kw', 'op') else k), v) for k, v, _, _ in sc_in.toks]
    tout = [(k if k in TRIVIA or k == 'eol' else ('w' if k in ('id', 'kw', 'op') else k), v) for k, v, _, _ in so.toks]
    if not sc_in.complete or not so.complete:
        return 'roundtrip/changed'
    # is tout a subsequence of tin?
    j = 0
    missing: T.List[T.Tuple[str, str]] = []
    for t in tin:
        if j < len(tout) and tout[j] == t:
            j += 1
        else:
            missing.append(t)
    if j == len(tout) and missing:
        names = set()
        for k, v in missing:
            names.add(v if k == 'w' else ('trivia' if (k in TRIVIA or k == 'eol') else k))
        return 'roundtrip/dropped-token:' + ','.join(sorted(names))[:40]
    if sorted(x for x in tin if x[0] not in TRIVIA) == sorted(x for x in tout if x[0] not in TRIVIA):
        return 'roundtrip/reordered:' + ('positional-after-kwarg' if cls_positional_after_kwarg(sc_in) else 'other')
    return 'roundtrip/changed'


PARSE_CPU_BUDGET_S = 20          # for inputs up to PARSE_BUDGET_MAXLEN characters (the unchanged tree needs milliseconds)
PARSE_BUDGET_MAXLEN = 20000


class _NoAnswer(BaseException):
    pass


class _cpu_budget:
    """CPU-time budget (ITIMER_PROF of this worker process) around one parse; inactive for very long inputs and outside
    the main thread."""
    def __init__(self, n: int):
        self.on = n <= PARSE_BUDGET_MAXLEN and threading.current_thread() is threading.main_thread()

    def __enter__(self) -> None:
        if self.on:
            def fire(_s: int, _f: T.Any) -> None:
                raise _NoAnswer()
            self.old = signal.signal(signal.SIGPROF, fire)
            signal.setitimer(signal.ITIMER_PROF, PARSE_CPU_BUDGET_S)

    def __exit__(self, *a: T.Any) -> None:
        if self.on:
            signal.setitimer(signal.ITIMER_PROF, 0)
            signal.signal(signal.SIGPROF, self.old)


def _confirm_no_answer(text: str) -> bool:
    import resource
    import subprocess
    from harness import mesondrv
    code = ('import sys\nsys.path.insert(0, %r)\nfrom mesonbuild import mparser\nfrom mesonbuild.mesonlib import MesonException\n'
            't = sys.stdin.buffer.read().decode("utf-8", "surrogatepass")\n'
            'try:\n    mparser.Parser(t, "f").parse()\nexcept MesonException:\n    pass\n' % mesondrv.REPO)

    def lim() -> None:
        resource.setrlimit(resource.RLIMIT_CPU, (3 * PARSE_CPU_BUDGET_S, 3 * PARSE_CPU_BUDGET_S + 2))
    try:
        p = subprocess.run([mesondrv.PY, '-B', '-c', code], input=text.encode('utf-8', 'surrogatepass'), preexec_fn=lim,
                           stdout=subprocess.DEVNULL, stderr=subprocess.DEVNULL, timeout=40 * PARSE_CPU_BUDGET_S)
    except subprocess.TimeoutExpired:
        return False            # wall clock ran out (loaded machine): not a verdict
    return p.returncode in (-signal.SIGXCPU, -signal.SIGKILL)


def judge(text: str, known: bool = True, heavy: bool = True) -> Res:
    """The oracle.  known=True: inputs of the known-defect classes have the affected clause skipped (reason in
    res.excluded); known=False (probes, replay): everything is enforced."""
    M = _mods()
    r = Res()
    sc: T.Optional[Scan] = None
    if len(text) >= 30:
        sc = r.scan = Scan(text)
        if known:
            if 'deep' in EXCLUDE_KNOWN and est_frames(sc) > FRAME_BUDGET:
                r.excluded.append(EX_DEEP)
                return r
            if 'bignum' in EXCLUDE_KNOWN and cls_huge_number(sc):
                r.excluded.append(EX_BIGNUM)
                return r
    # ---- parse
    try:
        with _cpu_budget(len(text)):
            tree = M.Parser(text, 'f').parse()
    except _NoAnswer:
        # "total": an answer (tree or located error) has to come.  CPU time, not wall clock; the budget is four orders of
        # magnitude above what the unchanged tree needs for inputs of this size, and the verdict is only given after a fresh
        # process with three times the budget did not answer either - otherwise the case counts as inconclusive.
        if _confirm_no_answer(text):
            r.fail = Failure('total/no-answer-within-cpu-budget', _case(text),
                             f'the parser neither returned a tree nor rejected {_short(text)} ({len(text)} characters) within '
                             f'{PARSE_CPU_BUDGET_S} s of CPU time here and {3 * PARSE_CPU_BUDGET_S} s in a fresh process')
        else:
            r.events.append('inconclusive:cpu-budget-not-confirmed')
        return r
    except M.MesonException as e:
        ln, col = getattr(e, 'lineno', None), getattr(e, 'colno', None)
        if not (type(ln) is int and type(col) is int):
            r.fail = Failure(f'reject/unlocated:{type(e).__name__}', _case(text),
                             f'{_short(text)} rejected with {type(e).__name__} but lineno={ln!r} colno={col!r} (expected integers)')
            return r
        if text.startswith('\ufeff') and ln == 0 and col == 0:
            r.events.append('rejected:bom')
            return r
        lines = text.split('\n')
        ok = 1 <= ln <= len(lines) and 0 <= col <= len(lines[ln - 1]) + (1 if ln < len(lines) else 0)
        if not ok:
            if sc is None:
                sc = r.scan = Scan(text)
            if cls_newline_in_plain_string(sc):
                if known and 'nlstr' in EXCLUDE_KNOWN:
                    r.excluded.append(EX_NLSTR)
                    return r
                sig = 'position/newline-in-plain-string'
            elif cls_eof_after_multiline_string(sc) and (ln, col) == _naive_eof(text, sc):
                if known and 'eofml' in EXCLUDE_KNOWN:
                    r.excluded.append(EX_EOFML)
                    return r
                sig = 'reject/location-outside-text:eof-after-multiline-string'
            else:
                sig = 'reject/location-outside-text'
            r.fail = Failure(sig, _case(text),
                             f'{_short(text)} rejected ({str(e).splitlines()[0][:80]!r}) at lineno={ln} colno={col}, '
                             f'but the text has {len(lines)} line(s)' +
                             (f' and line {ln} has {len(lines[ln - 1])} characters' if 1 <= ln <= len(lines) else ''))
        return r
    except Exception as e:   # noqa: BLE001 - the property: no internal Python error ever escapes
        sig = _crash_sig('parse', e)
        if known and 'emptykey' in EXCLUDE_KNOWN and sig == 'crash/TypeError:unhashable-EmptyNode' and '{' in text and ':' in text:
            r.excluded.append(EX_EMPTYKEY)
            return r
        r.fail = Failure(sig, _case(text), f'Parser({_short(text)}).parse() raised {type(e).__name__}: {str(e)[:120]} [{_tb_tail(e)}] '
                         '(only a located MesonException may escape)')
        return r
    r.accepted = True
    if sc is None:
        sc = r.scan = Scan(text)
    # ---- lossless
    try:
        p = M.RawPrinter()
        tree.accept(p)
        out = p.result
    except Exception as e:   # noqa: BLE001
        r.fail = Failure(_crash_sig('print', e) if not isinstance(e, M.MesonException) else f'print/raises:{type(e).__name__}', _case(text),
                         f'RawPrinter on the accepted tree of {_short(text)} raised {type(e).__name__}: {str(e)[:120]} [{_tb_tail(e)}]')
        return r
    skip_rt = False
    if known:
        if 'not' in EXCLUDE_KNOWN and cls_dangling_not(sc):
            r.excluded.append(EX_NOT)
            skip_rt = True
        if 'kwpos' in EXCLUDE_KNOWN and cls_positional_after_kwarg(sc):
            r.excluded.append(EX_KWPOS)
            skip_rt = True
    if out != text and not skip_rt:
        k = next((i for i, (a, b) in enumerate(zip(out, text)) if a != b), min(len(out), len(text)))
        r.fail = Failure(diff_signature(sc, out), _case(text),
                         f'accepted, but RawPrinter output differs from the input at offset {k}:\n input : {_short(text)}\n output: {_short(out)}')
        return r
    # ---- positions
    if not sc.complete:
        r.events.append('scanner_incomplete_on_accepted_text')
    elif known and 'nlstr' in EXCLUDE_KNOWN and cls_newline_in_plain_string(sc):
        r.excluded.append(EX_NLSTR)
    else:
        f = check_extents(text, sc, tree, M, r)
        if f is not None:
            r.fail = f
            return r
    # ---- the other printers must not blow up either
    if heavy and len(text) < 200000:
        for name, cls in (('AstPrinter', M.AstPrinter), ('AstJSONPrinter', M.AstJSONPrinter)):
            try:
                tree.accept(cls())
            except M.MesonException as e:
                r.events.append(f'{name}_raises_{type(e).__name__}')
            except Exception as e:   # noqa: BLE001
                r.fail = Failure(_crash_sig(name, e), _case(text),
                                 f'{name} on the accepted tree of {_short(text)} raised {type(e).__name__}: {str(e)[:120]} [{_tb_tail(e)}]')
                return r
    return r


def check_extents(text: str, sc: Scan, tree: T.Any, M: _M, r: Res) -> T.Optional[Failure]:
    model = model_extents(sc)
    if model is None:
        r.events.append('model_brackets_unbalanced_on_accepted_text')
        return None
    offs = [0]
    find = text.find
    i = find('\n')
    while i != -1:
        offs.append(i + 1)
        i = find('\n', i + 1)
    nl = len(offs)
    n = len(text)
    got: T.Dict[str, T.List[T.Tuple[int, int]]] = {k: [] for k in model}
    nodes: T.Dict[T.Tuple[str, int, int], T.Any] = {}
    for node in walk(tree, M.BaseNode):
        role = ROLE_OF.get(type(node).__name__)
        if role is None:
            continue
        l1, c1, l2, c2 = node.lineno, node.colno, node.end_lineno, node.end_colno
        if 1 <= l1 <= nl and 1 <= l2 <= nl and c1 >= 0 and c2 >= 0:
            ext = (offs[l1 - 1] + c1, offs[l2 - 1] + c2)
        else:
            ext = (-1, -1)
        got[role].append(ext)
        nodes[(role, ext[0], ext[1])] = node
    if (got['function'] or got['array']) and _SPLITLINES_ONLY.search(text):
        # evidence only: rewriter.apply_changes builds its line table with str.splitlines(True), which also breaks
        # lines at these characters, so its splice offsets are off although the recorded extent is right
        r.events.append('evidence:rewriter_line_table_would_differ(splitlines)')
    cls2 = cls_newline_in_plain_string(sc)
    for role in ('function', 'array', 'method', 'dict', 'paren'):
        g, m = sorted(got[role]), sorted(model[role])
        if g == m:
            if role not in ENFORCED and g:
                r.events.append(f'extent_ok:{role}')
            continue
        if role not in ENFORCED:
            r.events.append(f'extent_MISMATCH:{role}')
            continue
        ms = set(m)
        bad = [x for x in g if x not in ms]
        what = 'call' if role == 'function' else 'array literal'
        if bad:
            s, e = bad[0]
            node = nodes[(role, s, e)]
            rec = f'({node.lineno},{node.colno})-({node.end_lineno},{node.end_colno})'
            cut = text[max(0, s):max(0, e)] if 0 <= s <= e <= n else '<outside the text>'
            exp = next((x for x in m if x[0] == s), None) or next((x for x in m if x[1] == e), None) or (m[0] if m else None)
            part = 'start' if (exp is not None and exp[0] != s) else 'end'
            sig = 'position/newline-in-plain-string' if cls2 else f'span/{role}:wrong-{part}'
            return Failure(sig, _case(text),
                           f'{type(node).__name__} records extent {rec}; read as rewriter.apply_changes reads it this cuts {_short(cut, 80)}, '
                           f'but the {what} in the source is {_short(text[exp[0]:exp[1]], 80) if exp else "<none>"}\n input: {_short(text)}')
        gs = set(g)
        miss = [x for x in m if x not in gs] or m
        sig = 'position/newline-in-plain-string' if cls2 else f'span/{role}:node-count'
        return Failure(sig, _case(text),
                       f'the text contains {len(m)} {what}(s) but the tree holds {len(g)} {role} node(s); '
                       f'e.g. {_short(text[miss[0][0]:miss[0][1]], 80)} has no node with its extent\n input: {_short(text)}')
    return None


# ---------------------------------------------------------------------------
# self test of the reference model (hand-computed expectations)

def selftest(ctx: Ctx) -> None:
    t = "x = f(a, [1, 2], g (b)) # f(\ny = z.m([3])[0]\nif (a)\n  w = {'k' : [\n 4]}\nendif\n"
    sc = Scan(t)
    if not sc.complete or ''.join(x[1] for x in sc.toks) != t:
        raise HarnessError('scanner self-test: tokens do not reproduce the text')
    m = model_extents(sc)
    if m is None:
        raise HarnessError('scanner self-test: bracket model failed')

    def ext(sub: str, frm: int = 0) -> T.Tuple[int, int]:
        s = t.index(sub, frm)
        return (s, s + len(sub))
    want = {
        'function': sorted([ext('f(a, [1, 2], g (b))'), ext('g (b)')]),
        'array': sorted([ext('[1, 2]'), ext('[3]'), ext('[\n 4]')]),
        'method': [ext('m([3])')],
        'dict': [ext("{'k' : [\n 4]}")],
        'paren': [ext('(a)')],
        'index': [ext('[0]')],
    }
    for k, v in want.items():
        if sorted(m[k]) != v:
            raise HarnessError(f'extent model self-test failed for {k}: {sorted(m[k])} != {v}')
    for txt, fn, exp in [('x = a not\n', cls_dangling_not, True), ('x = a not in b\n', cls_dangling_not, False), ('x = not a\n', cls_dangling_not, False), ('not not and', cls_dangling_not, True), ('x = [not a, b and not c]', cls_dangling_not, False),
                         ('f(a, b: 1, c)', cls_positional_after_kwarg, True), ('f(a, b: 1, c: 2)', cls_positional_after_kwarg, False),
                         ('f(a ? b : c, d)', cls_positional_after_kwarg, False), ('f(k: [1, 2], j: g(x, y))', cls_positional_after_kwarg, False),
                         ('{a: 1, b: 2}', cls_positional_after_kwarg, False), ('[a: 1, b]', cls_positional_after_kwarg, True),
                         ("x = 'a\nb'", cls_newline_in_plain_string, True), ("x = '''a\nb'''", cls_newline_in_plain_string, False)]:
        if fn(Scan(txt)) != exp:
            raise HarnessError(f'classifier self-test failed: {fn.__name__}({txt!r}) != {exp}')
    if est_frames(Scan('x = ' + '[' * 34 + ']' * 34)) <= FRAME_BUDGET or est_frames(Scan('x = ' + '[' * 33 + ']' * 33)) > FRAME_BUDGET:
        raise HarnessError('frame estimate self-test failed')
    # the unspaced rendering must preserve the token sequence
    for a in SIGMA_FULL:
        for b in SIGMA_FULL:
            if a in ('# k', '"') or b == '"':
                continue
            txt = a + ('' if not NEED_SPACE[(a, b)] else ' ') + b
            vals = [x[1] for x in Scan(txt).toks if x[0] != 'ws']
            if vals != [a, b]:
                raise HarnessError(f'renderer self-test: {a!r}+{b!r} -> {vals}')


# ---------------------------------------------------------------------------
# (a) exhaustive token sequences

SIGMA_FULL = ['a', 'f', '1', '0x1F', "'s'", "'a\\'b'", "f'@x@'", "'''m\nl'''",
              'true', 'false', 'if', 'else', 'elif', 'endif', 'and', 'or', 'not', 'foreach', 'endforeach', 'in', 'continue', 'break',
              '(', ')', '[', ']', '{', '}', ',', '.', '+', '-', '*', '%', '/', ':', '=', '<', '>', '?', '+=', '==', '!=', '<=', '>=',
              '\n', '# k', '\\\n', '"']
SIGMA_Q = ['a', '1', "'s'", 'true', 'if', 'else', 'endif', 'and', 'not', 'in', 'foreach', 'endforeach', 'continue',
           '(', ')', '[', ']', '{', '}', ',', '.', '+', '-', ':', '=', '?', '==', '+=', '\n', '# k']
SIGMA_5 = ['a', '1', "'s'", 'not', 'in', 'if', 'endif', '(', ')', '[', ']', '{', '}', ',', '.', ':', '-', '=', '\n']
SIGMA_6 = ['a', '(', ')', '[', ']', ',', ':', '.', 'not', '\n']
SIGMAS = {'full': SIGMA_FULL, 'q': SIGMA_Q, 's5': SIGMA_5, 's6': SIGMA_6}
TRIVIA_TOKENS = frozenset(['\n', '# k', '\\\n'])


def _need_space(a: str, b: str) -> bool:
    sc = Scan(a + b)
    return [x[1] for x in sc.toks] != [a, b] or not sc.complete


NEED_SPACE = {(a, b): _need_space(a, b) for a in SIGMA_FULL for b in SIGMA_FULL}


def _exh_shard(shard: T.Tuple[str, int, T.Tuple[str, ...]], ev: Evidence, fails: T.List[Failure]) -> None:
    name, length, prefix = shard
    sigma = SIGMAS[name]
    sigs: T.Set[str] = set()
    n = nt = acc = 0
    excl: T.Counter[str] = collections.Counter()
    events: T.Counter[str] = collections.Counter()
    need = NEED_SPACE
    samples: T.List[T.Tuple[str, str]] = []
    for suffix in itertools.product(sigma, repeat=length - len(prefix)):
        toks = prefix + suffix
        t1 = ' '.join(toks)
        t2 = toks[0]
        for i in range(1, len(toks)):
            t2 += (' ' if need[(toks[i - 1], toks[i])] else '') + toks[i]
        valid2 = len(toks) >= 2 and '"' not in toks[:2]
        sigtok = any(t not in TRIVIA_TOKENS for t in toks)
        for text in ((t1,) if t2 == t1 else (t1, t2)):
            r = judge(text)
            n += 1
            if r.accepted:
                acc += 1
                if sigtok:
                    nt += 1
                    if len(samples) < 2 and len(toks) == length and (n % 7 == 0):
                        samples.append(('exhaustive:accepted', text))
            elif valid2:
                nt += 1
            for x in r.excluded:
                excl[x] += 1
            for x in r.events:
                events[x] += 1
            if r.fail is not None and r.fail.sig not in sigs:
                sigs.add(r.fail.sig)
                fails.append(r.fail)
    ev.evaluations += n
    ev.add_distinct(nt)
    ev.event(f'exhaustive[{name},L={length}]', n)
    ev.event('exhaustive:accepted', acc)
    ev.event('exhaustive:rejected', n - acc)
    for k, v in excl.items():
        ev.exclude(k, v)
    for k, v in events.items():
        ev.event(k, v)
    for cls, s in samples:
        ev.case(None, cls=cls, sample=s, n=0)


def exhaustive_shards(name: str, maxlen: int) -> T.List[T.Tuple[str, int, T.Tuple[str, ...]]]:
    sigma = SIGMAS[name]
    out: T.List[T.Tuple[str, int, T.Tuple[str, ...]]] = []
    for length in range(1, maxlen + 1):
        if length <= 2:
            out.append((name, length, ()))
        elif len(sigma) ** (length - 1) <= 3000:
            out.extend((name, length, (a,)) for a in sigma)
        else:
            out.extend((name, length, (a, b)) for a in sigma for b in sigma)
    return out


# ---------------------------------------------------------------------------
# Hypothesis domains

def _record(ev: Evidence, text: str, r: Res, cls: str) -> None:
    sc = r.scan
    if r.accepted:
        if sc is None:
            sc = Scan(text)
        nt = bool(sc.sig) and not all(t[0] == 'eol' for t in sc.sig)
        c = cls + ':accepted'
    else:
        if r.excluded and not r.events and r.fail is None and sc is not None and (EX_DEEP in r.excluded or EX_BIGNUM in r.excluded or EX_EMPTYKEY in r.excluded):
            nt = False
            c = cls + ':skipped'
        else:
            if sc is None:
                sc = Scan(text)
            nt = len(sc.sig) >= 2
            c = cls + ':rejected'
    ev.case(text, nontrivial=nt, cls=c, sample=text[:400])
    for x in r.excluded:
        ev.exclude(x)
    for x in r.events:
        ev.event(x)


SEPS = ['', ' ', ' ', ' ', '\n', '\n', '  ', '\t', ' # k\n', ' \\\n', '\n\n']
JUNK = ["'", "'''", "f'", '\\', '\r', '\r\n', '\x00', '@', '!', '$', ';', '~', '|', '&', '0', '00', '007', '1\u0663', '\u00e9', '\u2028', '\x0c',
        'return', 'testcase', 'endtestcase', '0b', '0x', '0o8', '1e5', '1.5', '_', 'f', "f''", "''", "'\\n'", "'\\", "'a\nb'", '#', '#\n',
        "'''a'''", "''''", "'\\''", '\ufeff', '\x85', '\x1c']
OPENERS = [('(', ')'), ('[', ']'), ('{', '}'), ('f(', ')'), ('a.m(', ')'), ('[', '][0]'), ('if a\n', '\nendif\n'),
           ('foreach x : y\n', '\nendforeach\n'), ('if a\n', '\nelse\n'), ("'", "'"), ("'''", "'''"), ('(', ']'), ('', '')]


class Chooser:
    """turns a flat list of integers (what Hypothesis generates and shrinks) into a sequence of choices; an exhausted
    list always yields choice 0, which every builder below maps to its simplest alternative"""
    __slots__ = ('data', 'i')

    def __init__(self, data: T.Sequence[int]):
        self.data = data
        self.i = 0

    def n(self, k: int) -> int:
        if self.i >= len(self.data) or k <= 0:
            return 0
        v = self.data[self.i] % k
        self.i += 1
        return v

    def pick(self, seq: T.Sequence[T.Any]) -> T.Any:
        return seq[self.n(len(seq))]

    @property
    def left(self) -> int:
        return len(self.data) - self.i


SOUP_TOKENS = SIGMA_FULL + SIGMA_FULL + SIGMA_Q + JUNK


def build_soup(data: T.Sequence[int]) -> str:
    ch = Chooser(data)

    def pieces(depth: int) -> str:
        out = []
        for _ in range(ch.n(7) + (1 if depth == 0 else 0)):
            if ch.left <= 0:
                break
            if depth < 6 and ch.n(4) == 3:
                o = ch.pick(OPENERS)
                out.append(o[0] + pieces(depth + 1) + o[1] + ch.pick(SEPS))
            else:
                out.append(ch.pick(SOUP_TOKENS) + ch.pick(SEPS))
        return ''.join(out)
    out = []
    while ch.left > 0:
        out.append(pieces(0))
    return ''.join(out)


IDS = ['a', 'b', 'foo_1', 'x', 'meson', 'f']
ATOMS = ['a', 'b', 'foo_1', '1', '0', '42', '0x1F', '0b10', '0o17', "'s'", "''", "'a\\'b'", "'@0@ \\n'", "f'@x@'", "'''m\nl'''", "f'''m\n@x@'''",
         'true', 'false', "'#'", "'['", "')'", "'''('''", "'not'"]
BINOPS = ['+', '-', '*', '/', '%', '==', '!=', '<', '>', '<=', '>=', ' and ', ' or ', ' in ', ' not in ', ' not  in ']
INNER_WS = ['', '', ' ', ' ', '\n', '\n  ', ' # c\n  ', ' \\\n ', '\t']
OUTER_WS = ['', '', ' ', ' ', '  ', ' \\\n ', '\t']
EOLS = ['\n', '\n', '\n', ' # t\n', '\n\n', ' \n', '\r\n']


def build_program(data: T.Sequence[int]) -> str:
    """grammar-directed generator (mostly valid programs; validity is NOT assumed by the oracle)"""
    ch = Chooser(data)

    def args(d: int) -> str:
        iw = ch.pick(INNER_WS)
        items = [ch.pick(INNER_WS) + expr(d) + iw for _ in range(ch.n(4))]
        items += [f'{iw}{ch.pick(IDS)}{ch.pick(INNER_WS)}:{iw}{expr(d)}' for _ in range(ch.n(3))]
        s = ','.join(items)
        if items and ch.n(4) == 1:
            s += ',' + ch.pick(INNER_WS)
        return s

    def expr(d: int) -> str:
        k = ch.n(13) if d > 0 else 0
        if k == 0 or ch.left <= 0:
            return ch.pick(ATOMS)
        d -= 1
        ow = ch.pick(OUTER_WS)
        if k in (1, 2):
            return f'{expr(d)}{ow}{ch.pick(BINOPS)}{ow}{expr(d)}'
        if k == 3:
            return f'[{args(d)}]'
        if k in (4, 5):
            return f"{ch.pick(IDS)}{ch.pick(['', '', ' '])}({args(d)})"
        if k == 6:
            w = ch.pick(['', '', ' ', '\\\n'])
            return f"{expr(d)}{w}.{w}{ch.pick(IDS)}{ch.pick(['', ' '])}({args(d)})"
        if k == 7:
            return f"{expr(d)}{ch.pick(['', '', ' '])}[{expr(d)}]"
        if k == 8:
            iw = ch.pick(INNER_WS)
            return f'({iw}{expr(d)}{iw})'
        if k == 9:
            iw = ch.pick(INNER_WS)
            return '{' + ','.join(f'{iw}{expr(d)}{ch.pick(INNER_WS)}:{iw}{expr(d)}' for _ in range(ch.n(4))) + iw + '}'
        if k == 10:
            return f'not {expr(d)}'
        if k == 11:
            return f'-{expr(d)}'
        return f'{expr(d)}{ow}?{ow}{expr(d)}{ow}:{ow}{expr(d)}'

    def body(d: int) -> str:
        return ''.join(ch.pick(['', '  ', '\t']) + stmt(d) + ch.pick(EOLS) for _ in range(ch.n(4)))

    def stmt(d: int) -> str:
        k = ch.n(10)
        if k <= 2 or ch.left <= 0:
            return f"{ch.pick(IDS)}{ch.pick(OUTER_WS)}{ch.pick(['=', '=', '+='])}{ch.pick(OUTER_WS)}{expr(3)}"
        if k <= 4:
            return expr(3)
        if k == 5:
            return ch.pick(['continue', 'break', '', '# comment', '  # indented comment', '\\'])
        if d <= 0:
            return expr(2)
        if k == 6:
            return f'if {expr(2)}\n{body(d - 1)}endif'
        if k == 7:
            return f'if {expr(2)}\n{body(d - 1)}else\n{body(d - 1)}endif'
        if k == 8:
            return f'if {expr(2)}\n{body(d - 1)}elif {expr(2)}\n{body(d - 1)}endif'
        ow = ch.pick(OUTER_WS)
        return f"foreach {ch.pick(['x', 'k, v', 'k , v'])}{ow}:{ow}{expr(2)}\n{body(d - 1)}endforeach"

    out = ch.pick(['', '', '\n', '# head\n', '  '])
    first = True
    while first or ch.left > 0:
        first = False
        out += stmt(2) + ch.pick(EOLS + [''])
    return out


def soup_strategy() -> T.Any:
    from hypothesis import strategies as st
    return st.lists(st.integers(0, 999), max_size=90).map(build_soup)


def program_strategy() -> T.Any:
    from hypothesis import strategies as st
    return st.lists(st.integers(0, 999), min_size=1, max_size=120).map(build_program)


def text_strategy() -> T.Any:
    from hypothesis import strategies as st
    alpha = st.one_of(st.sampled_from(list("abf01 \n\t'\\#()[]{},.:=+-*/%<>?!\"_@\r")), st.characters(blacklist_categories=('Cs',)))
    return st.text(alphabet=alpha, max_size=40)


def _hyp_shard(shard: T.Tuple[str, int, int], ev: Evidence, fails: T.List[Failure]) -> None:
    kind, seed, n = shard
    strat = {'soup': soup_strategy, 'program': program_strategy, 'text': text_strategy}[kind]()

    def check(text: str) -> T.Optional[Failure]:
        r = judge(text)
        _record(ev, text, r, kind)
        return r.fail

    campaign(strat, check, n, seed, fails)


# ---------------------------------------------------------------------------
# corpus

_corpus_cache: T.Optional[T.List[T.Tuple[str, str]]] = None


def corpus() -> T.List[T.Tuple[str, str]]:
    """(relative path, text) of every meson.build / meson.options / meson_options.txt under the repo, sorted"""
    global _corpus_cache
    if _corpus_cache is None:
        out = []
        for root, dirs, files in os.walk(REPO):
            dirs[:] = sorted(d for d in dirs if d not in ('.git', '__pycache__'))
            for fn in sorted(files):
                if fn in ('meson.build', 'meson.options', 'meson_options.txt'):
                    p = os.path.join(root, fn)
                    try:
                        with open(p, encoding='utf-8') as fh:    # the way meson itself reads a build file (universal newlines)
                            out.append((os.path.relpath(p, REPO), fh.read()))
                    except (UnicodeDecodeError, OSError):
                        out.append((os.path.relpath(p, REPO), None))   # type: ignore[arg-type]
        _corpus_cache = out
    return _corpus_cache


def _shrink_text(f: Failure) -> Failure:
    """ddmin over scanner tokens for failures found on long inputs"""
    text = f.case.get('text', '') if isinstance(f.case, dict) else ''
    if len(text) < 200:
        return f
    sc = Scan(text)
    items = [t[1] for t in sc.toks]
    if not sc.complete:
        items.append(text[sc.toks[-1][3] if sc.toks else 0:])
    best = [f]

    def still(cand: T.List[str]) -> bool:
        r = judge(''.join(cand), known=True, heavy=False)
        if r.fail is not None and r.fail.sig == f.sig:
            best[0] = r.fail
            return True
        return False
    if len(items) > 4000:
        return f
    minimize_list(items, still, max_tests=600)
    out = best[0]
    if isinstance(f.case, dict):
        for k, v in f.case.items():
            if k != 'text' and isinstance(out.case, dict):
                out.case.setdefault('found_in', {})[k] = v
    return out


def _verbatim_shard(shard: T.Tuple[int, int], ev: Evidence, fails: T.List[Failure]) -> None:
    lo, hi = shard
    files = corpus()
    sigs: T.Set[str] = set()
    for rel, text in files[lo:hi]:
        if text is None:
            ev.exclude('corpus file that is not valid UTF-8 (meson cannot read it as text either)')
            continue
        r = judge(text, known=False)      # real files: nothing is excluded
        _record(ev, rel, r, 'corpus-verbatim')
        if r.scan is not None or r.accepted:
            sc = r.scan or Scan(text)
            ev.extra.setdefault('corpus_max_est_frames', 0)
            ev.extra['corpus_max_est_frames'] = max(ev.extra['corpus_max_est_frames'], est_frames(sc))
        if r.fail is not None and r.fail.sig not in sigs:
            sigs.add(r.fail.sig)
            r.fail.case['file'] = rel
            fails.append(_shrink_text(r.fail))


_tok_cache: T.Dict[int, T.List[str]] = {}


def _file_tokens(idx: int) -> T.List[str]:
    v = _tok_cache.get(idx)
    if v is None:
        text = corpus()[idx][1] or ''
        sc = Scan(text)
        v = [t[1] for t in sc.toks]
        if not sc.complete:
            v.append(text[sc.toks[-1][3] if sc.toks else 0:])
        _tok_cache[idx] = v
    return v


MUT_INSERT = SIGMA_FULL + ['not', 'not', 'in', ':', ',', "'", "'a\nb'", '\r', '{-:1}', '1' * 50]


def mutate(tokens: T.List[str], ops: T.List[T.List[int]]) -> str:
    toks = list(tokens)
    for op, pos, arg in ops:
        if not toks:
            toks = ['a']
        i = pos % len(toks)
        if op == 0:
            del toks[i]
        elif op == 1:
            toks.insert(i, toks[i])
        elif op == 2:
            j = (i + 1 + arg % 3) % len(toks)
            toks[i], toks[j] = toks[j], toks[i]
        elif op == 3:
            toks.insert(i, MUT_INSERT[arg % len(MUT_INSERT)] + ' ')
        elif op == 4:
            toks[i] = MUT_INSERT[arg % len(MUT_INSERT)]
        else:   # delete a run
            del toks[i:i + 1 + arg % 5]
    return ''.join(toks)


def _mutation_shard(shard: T.Tuple[int, int], ev: Evidence, fails: T.List[Failure]) -> None:
    from hypothesis import strategies as st
    seed, n = shard
    files = corpus()
    idxs = [i for i, (_, t) in enumerate(files) if t]
    strat = st.tuples(st.sampled_from(idxs),
                      st.lists(st.tuples(st.integers(0, 5), st.integers(0, 100000), st.integers(0, 1000)).map(list), min_size=1, max_size=3))

    def check(case: T.Tuple[int, T.List[T.List[int]]]) -> T.Optional[Failure]:
        idx, ops = case
        text = mutate(_file_tokens(idx), ops)
        r = judge(text, heavy=len(text) < 4000)
        _record(ev, text, r, 'corpus-mutated')
        if r.fail is not None:
            r.fail.case['file'] = files[idx][0]
            r.fail.case['ops'] = ops
        return r.fail

    mine: T.List[Failure] = []
    campaign(strat, check, n, seed, mine)
    fails.extend(_shrink_text(f) for f in mine)


# ---------------------------------------------------------------------------
# (e) special classes and the probes for the known findings

def special_cases() -> T.List[T.Tuple[str, str]]:
    out: T.List[T.Tuple[str, str]] = []
    ok = "project('p', 'c')\nx = [1, 2]\ny = f(x, k : {'a' : 1})\n"
    out += [('bom', '\ufeff' + ok), ('bom', '\ufeff'), ('bom', '\ufeff\n\n(('), ('bom-inside', 'x = 1\n\ufeffy = 2\n'), ('bom-inside', "x = '\ufeff'\n# \ufeff\ny = f()\n")]
    out += [('dblquote', 'x = "a"\n'), ('dblquote', '\n\n  "'), ('dblquote', "x = '\"'\ny = [\"]\n"), ('dblquote', '# "\nf()\n')]
    out += [('cr', ok.replace('\n', '\r\n')), ('cr', 'x = 1\r'), ('cr', "x = 'a\rb'\ny = f(1)\n"), ('cr', '# c\r\ny = f(1)\n'), ('cr', "x = '''a\r\nb'''\ny = [f()]\n"),
            ('cr', 'x = [\r\n1]\n')]
    for ch, nm in [('\x00', 'nul'), ('\x0c', 'formfeed'), ('\u2028', 'u2028'), ('\x85', 'nel'), ('\x1c', 'fs'), ('\x0b', 'vt'), ('\u00e9', 'non-ascii'),
                   ('\U0001f600', 'astral'), ('$', 'dollar'), ('@', 'at'), ('!', 'bang'), (';', 'semicolon'), ('~', 'tilde'), ('`', 'backtick'), ('\\', 'backslash')]:
        out += [(nm, f'x = 1{ch}\n'), (nm, f'{ch}'), (nm, f"x = '{ch}'\ny = f([1], '{ch}')\n"), (nm, f'# {ch} \ny = f([1])\nz = [g({ch}\n'),
                (nm, f"x = '''{ch}\n{ch}'''\ny = f([1])\n"), (nm, f"x = f'{ch}'\n"), (nm, f'x = [1,\n # {ch}\n f({ch})]\n'), (nm, f'a{ch}b = 1\n')]
    out += [('unterminated', s) for s in ["x = 'abc", "x = 'abc\n", "x = '''abc", "x = '''abc\n''", "x = f'abc", "x = f'''abc\n", "x = 'abc\\'", "x = 'abc\\", "'", "'''",
                                          "f'", "x = ['a', 'b\n]\n", "x = 'a' 'b", "x = ''''", "x = '''''", "x = ''''''", "x = '''''''", "x = 'a\\\nb'\n", "'\\'", "'\\\\'"]]
    out += [('newline-in-plain-string', s) for s in ["x = 'a\nb'\n", "x = f'a\nb'\n", "x = 'a\n\n\nb' + f(1)\n", "f('\n')\n", "x = ['\n', [1]]\ny = f()\n",
                                                    "x = 'a\nb' )\n", "'\n'\n)", "x = '\n' '"]]
    out += [('multiline-strings', s) for s in ["x = '''a\nb'''\ny = f(1)\n", "x = f'''a\n\nb'''\ny = [1]\n", "f('''\n''', [\n'''\n\n'''])\n", "x = '''a'''b\n", "x = '''\n''' )\n",
                                              "x = f('''a\nb''', [1,\n 2]) + [3]\n", "x = '''a\n'''.format([1])\n"]]
    out += [('continuation', s) for s in ['x = 1 + \\\n 2\ny = f(1)\n', 'x = \\\n\\\n[1]\n', '\\\n', '\\', '\\ \n', 'x = f(\\\n 1)\n', 'x = 1 \\ # c\n + [2]\n', 'a \\\n b', '\\\nf()',
                                         'x = [ \\\n\\\n 1 ]  \\\n']]
    out += [('eof-without-newline', s) for s in ['x = f(1)', 'x = [1]', 'if a\n f()\nendif', 'foreach a : b\nendforeach', 'x = f(1) # c', '  ', '# c', 'x = [1] \\\n']]
    out += [('empty-operands', s) for s in ['x =\n', 'x = 1 +\n', 'f(,)\n', 'x = [,]\n', 'x = ()\n', 'x = -\n', 'x = not\n', 'if\nendif\n', 'x = a ?  : \n', 'f(a:)\n', '{a:}\n',
                                           'x = [1, , 2]\n', 'foreach x : \nendforeach\n', 'x = a.b()\n.c()\n', 'x = 1 == \n', '= 1\n', '+= 1\n', 'x = y = \n']]
    out += [('keywords', s) for s in ['continue\n', 'break\n', 'continue break\n', 'x = continue\n', 'if true\ncontinue\nendif\n', 'return = 1\nreturn(1)\n', 'in = 1\n', 'x = true()\n',
                                     'endif\n', 'else\n', 'elif a\n', 'endforeach\n', 'if a\nelse\nelse\nendif\n', 'if a\nelif\nendif\n', 'x = a not in b\n', 'x = a not\\\nin [b]\n',
                                     'x = a not # c\n in b\n', 'x = [a not\n in [b]]\n', 'x = not not a\n', 'x = a in not b\n', 'testcase expect_error(\'x\')\nendtestcase\n']]
    for d in (1, 2, 5, 10, 20, 30, 33):
        out += [('nesting-within-budget', 'x = ' + '[' * d + ']' * d + '\n'), ('nesting-within-budget', 'x = ' + '(' * d + 'a' + ')' * d + '\n'),
                ('nesting-within-budget', 'x = ' + 'f(' * d + ')' * d + '\n'), ('nesting-within-budget', 'x = ' + '{1:' * d + '2' + '}' * d + '\n'),
                ('nesting-within-budget', 'x = ' + '[f(a.m(' * (d // 3 + 1) + ')]).n(' * (d // 3 + 1) + ')' * (d // 3 + 1) + '\n'),
                ('nesting-within-budget', 'x = ' + '[' * d + '\n'), ('nesting-within-budget', ']' * d + '\n'),
                ('nesting-within-budget', ''.join('  ' * i + 'if a\n' for i in range(d)) + ''.join('endif\n' for _ in range(d)))]
    out += [('chain-within-budget', 'x = ' + ' + '.join(['a'] * 120) + '\n'), ('chain-within-budget', 'x = a' + '.b()' * 120 + '\n'), ('chain-within-budget', 'x = a' + '[0]' * 120 + '\n'),
            ('chain-within-budget', 'x = ' + ' and '.join(['a'] * 120) + '\n'), ('chain-within-budget', 'x = ' + ' = '.join(['a'] * 120) + '\n')]
    big = 200000
    out += [('long-lines', '# ' + 'c' * big + '\nx = f([1])\n'), ('long-lines', "x = '" + 's' * big + "'\ny = f([1])\n"), ('long-lines', 'a' * big + ' = f([1])\n'),
            ('long-lines', 'x = [' + ', '.join(['1'] * 30000) + ']\ny = f(x)\n'), ('long-lines', 'x = f(' + ', '.join(f'k{i} : {i}' for i in range(2000)) + ')\n'),
            ('long-lines', 'x = 1\n' * 30000), ('long-lines', ' ' * big + 'x = [1]\n'), ('long-lines', '\n' * big + 'x = [f()]\n'),
            ('long-lines', 'x = ' + '1' * MAX_NUM_LEN + '\n'), ('long-lines', 'x = 0x' + 'f' * (MAX_NUM_LEN - 2) + '\n'), ('long-lines', "x = '''" + 'line\n' * 40000 + "'''\ny = f([1])\n")]
    out += [('numbers', s) for s in ['x = 0\n', 'x = 00\n', 'x = 01\n', 'x = 0x\n', 'x = 0b2\n', 'x = 0o8\n', 'x = 1.5\n', 'x = 1.e\n', 'x = 1e5\n', 'x = 0XaB + 0B1 + 0O7\n',
                                    'x = 1\u0663\n', 'x = \u0663\n', 'x = 1_000\n', 'x = 1.to_string()\n', 'x = 0x1g\n', 'x = 1a\n', 'x = 1f()\n', 'x = -0\n', 'x = 1 .a()\n']]
    return out


def probes() -> T.List[T.Tuple[str, str]]:
    """one deterministic minimal input per known finding (enforced: a Failure is produced as long as the defect exists)"""
    lim = sys.get_int_max_str_digits() if hasattr(sys, 'get_int_max_str_digits') else 0
    out = [
        ('roundtrip/dropped-token:not', 'x = a not\n'),
        ('position/newline-in-plain-string', "x = 'a\nb'\ny = f(1)\n"),
        ('roundtrip/reordered:positional-after-kwarg', 'f(a, b: 1, c)\n'),
        ('crash/RecursionError:parse', 'x = ' + '[' * 200 + ']' * 200 + '\n'),
        ('crash/RecursionError:print', 'x = ' + '+'.join(['a'] * 600) + '\n'),
        ('crash/TypeError:unhashable-EmptyNode', '{-:1}\n'),
        ('reject/location-outside-text:eof-after-multiline-string', "x = ['''a\nb'''"),
    ]
    if lim > 0:
        out.append(('crash/ValueError:int-digit-limit', 'x = ' + '1' * (lim + 1) + '\n'))
    return out


def _special_shard(shard: T.Tuple[int, int], ev: Evidence, fails: T.List[Failure]) -> None:
    lo, hi = shard
    sigs: T.Set[str] = set()
    for cls, text in special_cases()[lo:hi]:
        r = judge(text, heavy=len(text) < 50000)
        _record(ev, text, r, 'special')
        ev.event('special-class:' + cls)
        if r.fail is not None and r.fail.sig not in sigs:
            sigs.add(r.fail.sig)
            fails.append(_shrink_text(r.fail))


# ---------------------------------------------------------------------------
# (f) atheris campaign (thorough tier, child process)

def _atheris_child(argv: T.List[str]) -> None:
    corpus_dir, out_dir, runs, seed, max_len = argv[0], argv[1], int(argv[2]), int(argv[3]), int(argv[4])
    import atheris   # type: ignore
    _core.repo_on_path()
    with atheris.instrument_imports(include=['mesonbuild.mparser', 'mesonbuild.ast.printer', 'mesonbuild.ast.visitor']):
        _mods()
    stats: T.Counter[str] = collections.Counter()
    found: T.Dict[str, int] = {}
    distinct: T.Set[bytes] = set()
    samples: T.Dict[str, T.List[str]] = {}

    def dump() -> None:
        with open(os.path.join(out_dir, 'stats.json.tmp'), 'w', encoding='utf-8') as fh:
            json.dump({'stats': stats, 'distinct_nontrivial': len(distinct), 'samples': samples}, fh)
        os.replace(os.path.join(out_dir, 'stats.json.tmp'), os.path.join(out_dir, 'stats.json'))

    def target(data: bytes) -> None:
        stats['executions'] += 1
        if stats['executions'] % 2000 == 0:
            dump()
        text = data.decode('utf-8', 'ignore')     # invalid UTF-8 sequences are dropped: the input domain is str
        if len(text) != len(data):
            stats['non_ascii_or_invalid_utf8'] += 1
        r = judge(text)
        for x in r.excluded:
            stats['excluded:' + x] += 1
        sc = r.scan or Scan(text)
        if r.accepted:
            stats['accepted'] += 1
            nt = bool(sc.sig) and not all(t[0] == 'eol' for t in sc.sig)
        else:
            stats['rejected_or_skipped'] += 1
            nt = len(sc.sig) >= 2 and not r.excluded
        if nt:
            distinct.add(_core.fp(text))
            key = 'accepted' if r.accepted else 'rejected'
            if len(samples.setdefault(key, [])) < 3 and stats['executions'] > 2000 and len(text) > 12:
                samples[key].append(text[:200])
        if r.fail is not None:
            stats['failures'] += 1
            sig = r.fail.sig
            if sig not in found or len(text) < found[sig]:
                found[sig] = len(text)
                safe = ''.join(c if c.isalnum() else '_' for c in sig)[:60]
                with open(os.path.join(out_dir, f'fail-{safe}.json'), 'w', encoding='utf-8') as fh:
                    json.dump(r.fail.to_json(), fh, ensure_ascii=False)

    dict_path = os.path.join(out_dir, 'tokens.dict')
    with open(dict_path, 'w', encoding='ascii') as fh:
        for tok in sorted(set(SIGMA_FULL + ['endif\n', 'endforeach\n', "'''", "f'", ' not in ', 'if a\n', 'foreach x : '])):
            fh.write('"' + ''.join(c if (c.isalnum() or c in " _()[]{},.+-*%/:=<>?!#'@") else '\\x%02x' % ord(c) for c in tok) + '"\n')
    atheris.Setup([sys.argv[0], corpus_dir, f'-dict={dict_path}', f'-runs={runs}', f'-seed={seed}', f'-max_len={max_len}', '-print_final_stats=1',
                   '-timeout=60', '-rss_limit_mb=4096', '-verbosity=0'], target)
    import atexit
    atexit.register(dump)
    try:
        atheris.Fuzz()
    finally:
        dump()


def run_atheris(ctx: Ctx, runs: int, jobs: int) -> None:
    try:
        import atheris   # type: ignore # noqa: F401
    except Exception as e:   # noqa: BLE001
        ctx.note(f'atheris not importable ({type(e).__name__}: {e}); byte-level campaign skipped')
        ctx.ev.extra['atheris'] = 'skipped: not importable'
        return
    files = [t for _, t in corpus() if t and len(t) <= 400]
    rnd = random.Random(ctx.seed)
    procs = []
    for j in range(jobs):
        cdir = os.path.join(ctx.scratch, f'atheris-corpus-{j}')
        odir = os.path.join(ctx.scratch, f'atheris-out-{j}')
        os.makedirs(cdir)
        os.makedirs(odir)
        seeds = rnd.sample(files, min(40, len(files))) + [t for _, t in special_cases() if len(t) < 200][j::jobs]
        for i, t in enumerate(seeds):
            with open(os.path.join(cdir, f'seed-{i:04d}'), 'w', encoding='utf-8', newline='') as fh:
                fh.write(t)
        env = dict(os.environ)
        env['PYTHONPATH'] = os.pathsep.join([VERIF, os.path.join(VERIF, '.deps')] + ([env['PYTHONPATH']] if env.get('PYTHONPATH') else []))
        env['VERIF_REPO'] = REPO
        cmd = [sys.executable, '-B', os.path.abspath(__file__), '--atheris-child', cdir, odir, str(runs), str(ctx.seed * 1000 + j + 1), '256']
        procs.append((j, odir, subprocess.Popen(cmd, env=env, stdout=subprocess.DEVNULL, stderr=subprocess.PIPE, cwd=ctx.scratch)))
    total = collections.Counter()
    distinct = 0
    for j, odir, p in procs:
        _, err = p.communicate()
        errt = err.decode('utf-8', 'replace')
        m = re.search(r'stat::number_of_executed_units:\s*(\d+)', errt)
        sp = os.path.join(odir, 'stats.json')
        if not os.path.exists(sp):
            raise HarnessError(f'atheris child {j} produced no statistics (exit {p.returncode}):\n{errt[-1500:]}')
        with open(sp, encoding='utf-8') as fh:
            st = json.load(fh)
        total.update(st['stats'])
        total['libfuzzer_executed_units'] += int(m.group(1)) if m else 0
        distinct += st['distinct_nontrivial']
        for k, v in st['samples'].items():
            for s in v[:1]:
                ctx.ev.case(None, cls='atheris:' + k, sample=s, n=0)
        if p.returncode != 0 and not m:
            ctx.note(f'atheris child {j} exited {p.returncode}: {errt[-300:]}')
        for fn in sorted(os.listdir(odir)):
            if fn.startswith('fail-'):
                with open(os.path.join(odir, fn), encoding='utf-8') as fh:
                    f = Failure.from_json(json.load(fh))
                # re-confirm in this (uninstrumented) process before reporting
                r = judge(f.case['text'])
                if r.fail is not None:
                    ctx.fail(_shrink_text(r.fail))
                else:
                    ctx.ev.inproc_only += 1
    ctx.ev.evaluations += total['executions']
    ctx.ev.add_distinct(distinct)     # per-job distinct texts (jobs use different seeds; overlap between jobs is possible and not subtracted... see report)
    ctx.ev.event('atheris:executions', total['executions'])
    ctx.ev.event('atheris:accepted', total['accepted'])
    ctx.ev.event('atheris:non_ascii_or_invalid_utf8', total['non_ascii_or_invalid_utf8'])
    for k, v in total.items():
        if k.startswith('excluded:'):
            ctx.ev.exclude(k[len('excluded:'):], v)
    ctx.ev.extra['atheris'] = {'jobs': jobs, 'runs_per_job': runs, 'executions': total['executions'], 'accepted': total['accepted'],
                               'failures_seen': total['failures']}


# ---------------------------------------------------------------------------

def _stage(ctx: Ctx, name: str) -> None:
    """reporting only (never an oracle): wall and CPU seconds per stage"""
    import resource
    import time
    now = time.time()
    ru, rc = resource.getrusage(resource.RUSAGE_SELF), resource.getrusage(resource.RUSAGE_CHILDREN)
    cpu = ru.ru_utime + ru.ru_stime + rc.ru_utime + rc.ru_stime
    ctx.ev.extra.setdefault('stage_seconds', {})[name] = {'wall': round(now - getattr(ctx, '_c02_t', ctx.t0), 1),
                                                          'cpu': round(cpu - getattr(ctx, '_c02_cpu', 0.0), 1)}
    ctx._c02_t, ctx._c02_cpu = now, cpu   # type: ignore[attr-defined]


def run(ctx: Ctx) -> None:
    # 0. the known findings: one enforced probe each
    for want, text in probes():
        r = judge(text, known=False, heavy=False)
        ctx.ev.case(text[:200], nontrivial=True, cls='probe', sample={'expect_signature_if_unfixed': want, 'text': text[:120]})
        if r.fail is not None:
            if r.fail.sig != want:
                ctx.note(f'probe for {want} failed with a different signature: {r.fail.sig}')
            ctx.fail(r.fail)
        else:
            ctx.note(f'probe {want}: property holds on this tree (defect fixed?)')
    _stage(ctx, 'probes')
    # (e) special classes
    nsp = len(special_cases())
    step = (nsp + 31) // 32
    pmap(ctx, _special_shard, [(lo, min(nsp, lo + step)) for lo in range(0, nsp, step)])
    _stage(ctx, 'special')
    # (d) corpus verbatim
    nfiles = len(corpus())
    if nfiles < 100:
        raise HarnessError(f'only {nfiles} build files found under {REPO}')
    step = (nfiles + 63) // 64
    pmap(ctx, _verbatim_shard, [(lo, min(nfiles, lo + step)) for lo in range(0, nfiles, step)])
    ctx.ev.extra['corpus_files'] = nfiles
    _stage(ctx, 'corpus_verbatim')
    # (a) exhaustive
    plans = [('q', 4), ('full', 3)] if ctx.quick else [('full', 4), ('s5', 5), ('s6', 6)]
    scale = float(os.environ.get('VERIF_SCALE', '1'))
    if scale < 1:
        plans = [(n, max(2, l - 1)) for n, l in plans]
    for name, maxlen in plans:
        pmap(ctx, _exh_shard, exhaustive_shards(name, maxlen))
    _stage(ctx, 'exhaustive')
    ctx.exhaustive = True
    ctx.ev.extra['exhaustive_scope'] = ('token sequences: ' + ', '.join(f'all of length <= {l} over the {len(SIGMAS[n])}-token alphabet {n!r}' for n, l in plans) +
                                        ' (two renderings each) are enumerated completely; all other domains are sampled')
    ctx.ev.extra['alphabets'] = {n: SIGMAS[n] for n, _ in plans}
    # (b) soups / programs / text, (c) corpus mutations
    seeds = shard_seeds(ctx, 64)
    shards = [('soup', s, ctx.n(1500, 12000)) for s in seeds[0:16]] + [('program', s, ctx.n(1500, 12000)) for s in seeds[16:32]] + \
             [('text', s, ctx.n(600, 5000)) for s in seeds[32:40]]
    pmap(ctx, _hyp_shard, shards)
    _stage(ctx, 'hypothesis_soup_program_text')
    pmap(ctx, _mutation_shard, [(s, ctx.n(1200, 10000)) for s in seeds[40:56]])
    _stage(ctx, 'corpus_mutation')
    # (f) atheris
    if not ctx.quick:
        run_atheris(ctx, ctx.n(150000, 150000), 8)
    else:
        ctx.ev.extra['atheris'] = 'thorough tier only'
    _stage(ctx, 'atheris')
    ctx.ev.extra['enforced_extents'] = list(ENFORCED)
    ctx.ev.extra['evidence_only_extents'] = {k: ctx.ev.hist.get(f'extent_ok:{k}', 0) for k in ('method', 'dict', 'paren')}
    ctx.ev.extra['evidence_only_extent_mismatches'] = {k: ctx.ev.hist.get(f'extent_MISMATCH:{k}', 0) for k in ('method', 'dict', 'paren')}


def replay(ctx: Ctx, case: T.Any, doc: dict) -> T.Optional[Failure]:
    text = case['text'] if isinstance(case, dict) else str(case)
    r = judge(text, known=False)
    return r.fail


if __name__ == '__main__':
    if len(sys.argv) >= 2 and sys.argv[1] == '--atheris-child':
        _atheris_child(sys.argv[2:])
    else:
        print('usage: ./vcheck C02 [--tier quick|thorough]')
